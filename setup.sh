#!/bin/bash
# Build the framework from files on disk only (offline) and warm the build caches.
set -u
export GOFLAGS=-mod=mod GOPROXY=off GOSUMDB=off GOTOOLCHAIN=local
V=/verif
mkdir -p $V/.build/bin $V/evidence $V/replays
cd $V/mc && go build -o $V/.build/bin/mc-plain ./cmd/mc || exit 1
if [ -d $V/vinstr ]; then
  (cd $V/vinstr && go build -o $V/.build/bin/vinstr .) || exit 1
fi
echo setup-ok
