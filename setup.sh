#!/bin/bash
# Build the framework from files on disk only (offline) and warm the build caches
# (plain, overlay and -race variants) so that the first check does not pay for them.
set -u
export GOFLAGS=-mod=mod GOPROXY=off GOSUMDB=off GOTOOLCHAIN=local
V=/verif
mkdir -p $V/.build/bin $V/evidence $V/replays
(cd $V/vinstr && go build -o $V/.build/bin/vinstr .) || { echo "setup: vinstr build failed"; exit 1; }
cd $V/mc && go build -o $V/.build/bin/mc-plain ./cmd/mc || { echo "setup: mc build failed"; exit 1; }
for variant in add full; do
  ov=$(mktemp -d $V/.build/ov-setup.XXXXXX)
  if $V/.build/bin/vinstr -mode $variant -repo /repo -out "$ov" >/dev/null 2>&1; then
    go build -tags verif -overlay "$ov/overlay.json" -o $V/.build/bin/mc-$variant ./cmd/mc || echo "setup: mc-$variant build failed (checks will retry)"
    if [ $variant = add ]; then
      go build -race -tags verif -overlay "$ov/overlay.json" -o $V/.build/bin/racecomp ./cmd/racecomp || echo "setup: racecomp build failed (C12 will retry)"
    fi
  fi
  rm -rf "$ov"
done
echo setup-ok
