#!/bin/bash
# run.sh <ID> <quick|thorough>      run one check against /repo's current working tree
# run.sh --replay <file>            re-execute one recorded case
# Exit: 0 property held on everything explored; 1 VIOLATION; 2 build/usage failure (never a VIOLATION line).
set -u
export GOFLAGS=-mod=mod GOPROXY=off GOSUMDB=off GOTOOLCHAIN=local
export VERIF_DIR=/verif
V=/verif
B=$V/.build
mkdir -p "$B/bin" "$V/evidence" "$V/replays"

if [ "${1:-}" = "--replay" ]; then
  ID=$(python3 -c "import json,sys;print(json.load(open(sys.argv[1]))['property'])" "$2") || exit 2
  MODE=replay
else
  ID=${1:?usage: run.sh <ID> <tier>}
  TIER=${2:-${VERIF_TIER:-quick}}
  MODE=check
fi

# which binary variant does this check need
case "$ID" in
  C13|C19|C20) VARIANT=add ;;
  C11|C12|C14) VARIANT=full ;;
  *) VARIANT=plain ;;
esac

build() {
  local variant=$1
  local out=$B/bin/mc-$variant
  local tmp rc
  tmp=$(mktemp "$B/bin/.mc-$variant.XXXXXX")
  (
    flock 9
    cd $V/mc || exit 2
    if [ "$variant" = plain ]; then
      go build -o "$tmp" ./cmd/mc
    else
      ov=$(mktemp -d "$B/ov-$variant.XXXXXX")
      if ! "$B/bin/vinstr" -mode "$variant" -repo /repo -out "$ov" >"$ov/vinstr.log" 2>&1; then
        cat "$ov/vinstr.log"; rm -rf "$ov"; exit 2
      fi
      go build -tags verif -overlay "$ov/overlay.json" -o "$tmp" ./cmd/mc
      rc=$?
      cp "$ov/vinstr.log" "$B/vinstr-$variant.log" 2>/dev/null
      rm -rf "$ov"
      exit $rc
    fi
  ) 9>"$B/build.lock"
  rc=$?
  if [ $rc -ne 0 ]; then rm -f "$tmp"; return $rc; fi
  mv -f "$tmp" "$out"
}

if [ "$VARIANT" != plain ] && { [ ! -x "$B/bin/vinstr" ] || [ "$V/vinstr/main.go" -nt "$B/bin/vinstr" ]; }; then
  (cd $V/vinstr && go build -o "$B/bin/vinstr" .) || { echo "BUILD-FAILED vinstr"; exit 2; }
fi
if ! build "$VARIANT" 2>"$B/build-$ID.log"; then
  echo "BUILD-FAILED property=$ID (see $B/build-$ID.log)"
  tail -n 30 "$B/build-$ID.log"
  exit 2
fi

# C12 (and C11 for its concurrent-creation scenarios): free-running -race complement, same scenario table, accessor-only overlay (no rewriting, real sync)
if { [ "$ID" = C12 ] || [ "$ID" = C11 ]; } && [ "$MODE" = check ]; then
  (
    flock 9
    cd $V/mc || exit 2
    ov=$(mktemp -d "$B/ov-race.XXXXXX")
    "$B/bin/vinstr" -mode add -repo /repo -out "$ov" >"$ov/vinstr.log" 2>&1 &&
      go build -race -tags verif -overlay "$ov/overlay.json" -o "$B/bin/racecomp.tmp" ./cmd/racecomp && mv -f "$B/bin/racecomp.tmp" "$B/bin/racecomp"
    rc=$?
    rm -rf "$ov"
    exit $rc
  ) 9>"$B/build.lock" 2>>"$B/build-$ID.log"
  if [ $? -eq 0 ]; then export VERIF_RACECOMP="$B/bin/racecomp"; else echo "note: -race complement could not be built (see $B/build-$ID.log)"; fi
fi

if [ "$MODE" = replay ]; then
  exec "$B/bin/mc-$VARIANT" replay "$2"
fi
exec "$B/bin/mc-$VARIANT" check "$ID" --tier "$TIER"
