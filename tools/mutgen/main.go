// mutgen: mechanical mutation operators over the hand-written sources of /repo (not the generated parser).
// usage: mutgen -repo /repo -out DIR file.go...   writes DIR/NNNN.diff-less mutants as DIR/NNNN/{path,desc,content}
package main

import (
	"flag"
	"fmt"
	"go/ast"
	"go/parser"
	"go/token"
	"os"
	"path/filepath"
	"sort"
	"strconv"
	"strings"
)

type edit struct {
	from, to int // byte offsets
	repl     string
	desc     string
}

func main() {
	repo := flag.String("repo", "/repo", "")
	out := flag.String("out", "", "")
	flag.Parse()
	n := 0
	for _, rel := range flag.Args() {
		path := filepath.Join(*repo, rel)
		src, err := os.ReadFile(path)
		if err != nil {
			panic(err)
		}
		fset := token.NewFileSet()
		f, err := parser.ParseFile(fset, path, src, parser.ParseComments)
		if err != nil {
			panic(err)
		}
		off := func(p token.Pos) int { return fset.Position(p).Offset }
		line := func(p token.Pos) int { return fset.Position(p).Line }
		var edits []edit
		add := func(from, to token.Pos, repl, desc string) {
			edits = append(edits, edit{off(from), off(to), repl, fmt.Sprintf("%s:%d %s", rel, line(from), desc)})
		}
		swap := map[token.Token]string{token.EQL: "!=", token.NEQ: "==", token.LSS: "<=", token.LEQ: "<", token.GTR: ">=", token.GEQ: ">",
			token.LAND: "||", token.LOR: "&&", token.ADD: "-", token.SUB: "+"}
		inErr := map[ast.Node]bool{}
		ast.Inspect(f, func(nd ast.Node) bool {
			if c, ok := nd.(*ast.CallExpr); ok {
				if s, ok := c.Fun.(*ast.SelectorExpr); ok {
					if x, ok := s.X.(*ast.Ident); ok && ((x.Name == "fmt" && (s.Sel.Name == "Errorf" || s.Sel.Name == "Fprintf" || s.Sel.Name == "Sprintf")) || (x.Name == "errors" && s.Sel.Name == "New")) {
						for _, a := range c.Args {
							ast.Inspect(a, func(m ast.Node) bool {
								if m != nil {
									inErr[m] = true
								}
								return true
							})
						}
					}
				}
			}
			return true
		})
		ast.Inspect(f, func(nd ast.Node) bool {
			switch x := nd.(type) {
			case *ast.BinaryExpr:
				if r, ok := swap[x.Op]; ok {
					if x.Op == token.ADD {
						// string concatenation cannot become subtraction; let the compiler weed it out
					}
					add(x.OpPos, x.OpPos+token.Pos(len(x.Op.String())), r, fmt.Sprintf("operator %s -> %s", x.Op, r))
				}
			case *ast.IfStmt:
				simple := false
				if b, ok := x.Cond.(*ast.BinaryExpr); ok && (b.Op == token.EQL || b.Op == token.NEQ || b.Op == token.LSS || b.Op == token.GTR || b.Op == token.LEQ || b.Op == token.GEQ) {
					simple = true
				}
				if !simple {
					add(x.Cond.Pos(), x.Cond.End(), "!("+string(src[off(x.Cond.Pos()):off(x.Cond.End())])+")", "if-condition negated")
				}
				if x.Else == nil {
					// drop the guarded block
					add(x.Cond.Pos(), x.Cond.End(), "false && ("+string(src[off(x.Cond.Pos()):off(x.Cond.End())])+")", "if-block never taken")
				}
			case *ast.Ident:
				if x.Name == "true" && x.Obj == nil {
					add(x.Pos(), x.End(), "false", "true -> false")
				} else if x.Name == "false" && x.Obj == nil {
					add(x.Pos(), x.End(), "true", "false -> true")
				}
			case *ast.BasicLit:
				if x.Kind == token.INT {
					v, err := strconv.ParseInt(x.Value, 0, 64)
					if err == nil {
						add(x.Pos(), x.End(), strconv.FormatInt(v+1, 10), fmt.Sprintf("int %s -> %d", x.Value, v+1))
						if v > 0 {
							add(x.Pos(), x.End(), strconv.FormatInt(v-1, 10), fmt.Sprintf("int %s -> %d", x.Value, v-1))
						}
					}
				} else if x.Kind == token.STRING && !inErr[x] && len(x.Value) >= 2 {
					if x.Value[0] == '"' {
						add(x.Pos(), x.End(), x.Value[:len(x.Value)-1]+"_\"", "string "+x.Value+" extended")
					}
				}
			case *ast.ExprStmt:
				add(x.Pos(), x.End(), "", "statement deleted: "+firstLine(string(src[off(x.Pos()):off(x.End())])))
			case *ast.AssignStmt:
				if x.Tok != token.DEFINE {
					add(x.Pos(), x.End(), "", "assignment deleted: "+firstLine(string(src[off(x.Pos()):off(x.End())])))
				}
			case *ast.IncDecStmt:
				add(x.Pos(), x.End(), "", "inc/dec deleted")
			case *ast.DeferStmt:
				add(x.Pos(), x.End(), "", "defer deleted: "+firstLine(string(src[off(x.Pos()):off(x.End())])))
			case *ast.BranchStmt:
				if x.Tok == token.CONTINUE && x.Label == nil {
					add(x.Pos(), x.End(), "break", "continue -> break")
				} else if x.Tok == token.BREAK && x.Label == nil {
					add(x.Pos(), x.End(), "continue", "break -> continue")
				}
			case *ast.CaseClause:
				if len(x.List) >= 2 {
					for i, e := range x.List {
						var parts []string
						for j, o := range x.List {
							if j != i {
								parts = append(parts, string(src[off(o.Pos()):off(o.End())]))
							}
						}
						add(x.List[0].Pos(), x.List[len(x.List)-1].End(), strings.Join(parts, ", "), "case value dropped: "+string(src[off(e.Pos()):off(e.End())]))
					}
				}
				if len(x.Body) > 0 && x.List != nil {
					// the whole arm loses its body (falls out of the switch)
					add(x.Body[0].Pos(), x.Body[len(x.Body)-1].End(), "", "case body emptied: "+firstLine(string(src[off(x.Pos()):off(x.Colon)])))
				}
			case *ast.ReturnStmt:
				// swap `return X, nil` error result for the boolean-first functions is covered by literal flips; here: return early variants are not generated
			}
			return true
		})
		sort.SliceStable(edits, func(i, j int) bool { return edits[i].from < edits[j].from })
		for _, e := range edits {
			n++
			dir := filepath.Join(*out, fmt.Sprintf("%04d", n))
			os.MkdirAll(dir, 0o755)
			mut := string(src[:e.from]) + e.repl + string(src[e.to:])
			os.WriteFile(filepath.Join(dir, "path"), []byte(rel), 0o644)
			os.WriteFile(filepath.Join(dir, "desc"), []byte(e.desc), 0o644)
			os.WriteFile(filepath.Join(dir, "content"), []byte(mut), 0o644)
		}
	}
	fmt.Println(n, "mutants")
}

func firstLine(s string) string {
	if i := strings.IndexByte(s, '\n'); i >= 0 {
		s = s[:i]
	}
	if len(s) > 70 {
		s = s[:70]
	}
	return s
}
