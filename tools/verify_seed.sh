#!/bin/bash
# tools/verify_seed.sh <ID>  confirm a sub-agent's change in ITS scratch worktree (/tmp/wt/<ID>), never in /repo:
#   existing suite passes with the change, demo fails with it, demo passes without it.
export GOFLAGS=-mod=mod GOPROXY=off GOSUMDB=off GOTOOLCHAIN=local
ID=$1; W=${WT:-/tmp/wt}/$ID; O=${WTO:-/tmp/wtout}/$ID
cd $W || exit 2
demo=$(ls $O/*_test.go | head -1); dname=$(basename $demo)
pkgdir=.
if grep -q "^package grammar" $demo; then pkgdir=grammar; fi
git checkout -q -- . ; git clean -fdq   # never git stash: refs/stash is shared by all worktrees
git apply $O/patch.diff || { echo "$ID: patch does not apply"; exit 1; }
a=$(go test -vet=off -count=1 ./... 2>&1 | grep -c "^ok")
f=$(go test -vet=off -count=1 ./... 2>&1 | grep -c "^FAIL")
cp $demo $pkgdir/$dname
d1=$(cd $pkgdir && go test -vet=off -count=1 -run 'Demo|ZZ|zz|Seed' . 2>&1 | tail -1)
git apply -R $O/patch.diff
d2=$(cd $pkgdir && go test -vet=off -count=1 -run 'Demo|ZZ|zz|Seed' . 2>&1 | tail -1)
rm -f $pkgdir/$dname
echo "$ID: suite-with-change ok=$a fail=$f | demo-with-change: $d1 | demo-without: $d2"
