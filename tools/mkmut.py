#!/usr/bin/env python3
"""mkmut.py <out.diff> <file-in-repo> <old> <new> [<file> <old> <new> ...]
Creates a patch by exact single-occurrence replacement in /repo, then reverts /repo."""
import sys, subprocess
out = sys.argv[1]
args = sys.argv[2:]
assert subprocess.run(['git','-C','/repo','diff','--quiet']).returncode == 0, "/repo dirty"
try:
    for i in range(0, len(args), 3):
        f, old, new = args[i:i+3]
        p = '/repo/' + f
        s = open(p).read()
        assert s.count(old) == 1, f"{f}: old text occurs {s.count(old)} times"
        open(p, 'w').write(s.replace(old, new))
    d = subprocess.run(['git','-C','/repo','diff'], capture_output=True, text=True).stdout
    open(out, 'w').write(d)
    print("wrote", out, len(d.splitlines()), "lines")
finally:
    subprocess.run(['git','-C','/repo','checkout','--','.'])
