#!/bin/bash
# tools/benignrun.sh [diffs...]   apply each property-PRESERVING refactoring of /verif/benign to /repo and run every check on it:
# a check that raises an alarm (or stops building) on one of these is wrong. Prints one line per diff.
ALL="C01 C02 C03 C04 C05 C06 C07 C08 C09 C10 C11 C12 C13 C14 C15 C16 C17 C18 C19 C20"
for d in ${@:-$(ls /verif/benign/*.diff)}; do
  out=$(/verif/tools/mutant.sh $d $ALL 2>&1)
  bad=$(echo "$out" | grep -E "^CAUGHT|^ERROR" | cut -c1-400)
  if echo "$out" | grep -q "repo tests: pass" && [ -z "$bad" ]; then echo "$(basename $d): repo tests pass, all 20 checks silent"; else echo "$(basename $d): PROBLEM"; echo "$out" | grep -E "repo tests|^CAUGHT|^ERROR" | cut -c1-500; fi
done
