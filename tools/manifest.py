#!/usr/bin/env python3
"""Generates /verif/MANIFEST.json from the table below (single source of truth)."""
import json, sys

BUILT = {}   # id -> dict(text, note, technique, design_ref, engine)
def chk(id, engine, technique, text, note, ref):
    BUILT[id] = dict(engine=engine, technique=technique, text=text, note=note, ref=ref)

E1 = "E1 bounded product explorer (real Evaluate/Execute vs reference interpreter)"
chk("C01", "E1", "explicit enumeration of a bounded (expression x typed document) space; every model case replayed on the real Evaluate and compared with an independent reference interpreter",
    "Exhaustive within stated alphabets: every expression of the bounded expression language x every document of the typed universe is executed on the real code and on the reference interpreter; agreement of the outcome class (true/false/error) on every case. Tests pin ~230 pairs; the defects live in the product of operators x reflect kinds, which this enumerates by construction.",
    "Reference interpreter written from README/doc comments/property statements (two-element allowed sets only in the unspecified cells U1-U6); trusted: Go reflect/regexp/math/big, pointerstructure semantics as mirrored; nothing claimed beyond the alphabets.", "DESIGN.md 5 C01")
chk("C09", "E1", "explicit enumeration of the operator x reflect.Kind x placement matrix (bounded product) on the real Evaluate with a totality oracle",
    "Every operator and connective meets every reflect kind (incl. Invalid/nil, odd kinds, nil and multi-level pointers) in every placement (top level, map value, struct field, slice element, non-string-keyed map, unknown value): no panic and err!=nil => false on every case.",
    "Bounded to the stated universe; recoverable panics observed in-process, unrecoverable fatals surface as worker crashes (reported as violations).", "DESIGN.md 5 C09")

chk("C03", "E1", "explicit enumeration of all ordered pairs of a sub-expression pool x data set; composite outcomes checked against the 3x3 table of the parts' own outcomes on the real Evaluate",
    "All pairs (A,B) of the pool x all data: and/or/not/double negation/De Morgan outcomes equal the three-valued short-circuit table applied to A's and B's own outcomes; all 21 table cells are observed (listed in the evidence).",
    "Three-valued outcome classes; bounded pool (30 -> 52 sub-expressions) and data set; differential on the implementation itself, no reference needed.", "DESIGN.md 5 C03")
chk("C04", "E1", "explicit enumeration of the (selector, literal, document) space; positive vs negated operator, in vs contains spelling and not(...) forms compared on the real Evaluate and parser",
    "Every (selector, literal, document) triple of the C01 match space x 4 operator pairs: negated = complement / same error-ness, contains == flipped in (outcome and AST), each == not(counterpart).",
    "Outcome classes only; bounded alphabets of C01.", "DESIGN.md 5 C04")

chk("C02", "E1", "explicit enumeration of literal spellings x typed values (all 8-bit / thorough 16-bit integers, boundary sets, float specials, all short strings) on the real Evaluate and Coerce* functions vs a math/big reference",
    "Exhaustive for 8-bit (thorough 16-bit) integers against ~3k literal spellings, boundary alphabets for wider ints and floats, all strings <=3 over a tricky alphabet in every legal quoting: `a == lit` true exactly when lit read in the value's own type denotes the same value, error for invalid literals and non-scalars; exported Coerce* functions checked directly on every literal.",
    "Reference uses math/big and its own float-literal recogniser (no strconv); floats: boundary alphabet, not all bit patterns.", "DESIGN.md 5 C02")
chk("C05", "E1", "explicit enumeration of absent-path shapes x operators x unknown-value configurations on the real Evaluate vs the reference, plus two-run (inserted value) and unknown-value-is-neutral oracles",
    "Every selector path of depth<=3 (thorough 4) over {present, absent, index, out-of-range} parts x parent kinds x 8 operators + any/all x 7 unknown-value settings: the documented absent-key table, the error cases, `unknown value == as if resolved to v` (checked by inserting v into the datum and re-evaluating) and neutrality when everything resolves.",
    "Reference as C01; unknown values from scalar kinds only.", "DESIGN.md 5 C05")
chk("C06", "E1", "explicit enumeration of every {T,F,E} assignment to collection elements x binding modes x name choices x body templates on the real Evaluate vs the reference and vs the syntactically unrolled or/and chain",
    "All collections of length 0..4 (thorough 0..5) of each shape with every assignment of element outcomes x any/all x 4 binding modes x shadowing name choices x body templates x nesting: the fold result, early exit, binding tables, scoping and the error for non-iterables agree with the reference; value aliases over lists also equal the unrolled disjunction/conjunction evaluated by the implementation itself.",
    "Reference as C01; for maps with an erroring and a decisive element both outcomes are allowed (order unspecified; consistency is C14).", "DESIGN.md 5 C06")

chk("C07", "E1", "explicit enumeration of every combination of per-part selector spellings for all paths over a tricky part alphabet; parser Path equality and outcome equality across spellings on the real code",
    "Every path of 1..3 parts over {a,A,b,0,01,a/b,a~b,a.b,'a b',' a',e-acute,''} with >=2 spellings x every per-part spelling combination (dotted, digits, [\"..\"], [`..`], blanks inside brackets, escapes, JSON pointer with ~0/~1) x 8 operators + quantifier collection + alias-relative body selectors: the parser returns exactly the intended Path for each spelling and Evaluate's outcome is identical across spellings on every document (distinct leaf per path, so case/blank variants are told apart).",
    "Outcome classes; bounded alphabet/depth; differential on the implementation.", "DESIGN.md 5 C07")
chk("C08", "E1", "explicit enumeration of all hidden-content assignments (two-run non-interference groups) x nestings x tag configurations x expressions on the real Evaluate/Execute, plus reference conformance",
    "All 81 assignments of a 3-value alphabet to the 4 hideable fields x 6 nestings x 5 configurations x ~110 expressions: one outcome per group of data equal on visible fields; reference agreement (hidden never resolves to its content, renamed only under its tag name); Filter keeps all-or-none of a group.",
    "Reference as C01; hidden-content alphabet of 3 values.", "DESIGN.md 5 C08")
chk("C17", "E1", "explicit enumeration of container shapes x element kinds x every {T,F,E} element assignment x filter expressions on the real Execute, compared element-wise with the real Evaluate",
    "All containers of length 0..4 (thorough 0..5) of 8 container shapes x 4 element kinds with every assignment of T/F/E-valued elements x 30 expressions: result type, kept elements/keys and order, first error => (nil, err), input untouched, no aliasing of the input's storage, nil filter, idempotence, E/not(E) partition; nil/non-containers => error without panic.",
    "Differential against Evaluate (decided by C01); bounded sizes.", "DESIGN.md 5 C17")
chk("C18", "E1", "explicit enumeration of ALL option sequences up to length 3 (thorough 4) over a 15-letter option alphabet x expressions x data on the real CreateEvaluator/Evaluate vs the reference under the effective configuration",
    "Every sequence (subset, order, repetition, nil options) of the option alphabet: creation fails exactly when the effective budget is N-1; otherwise the 1st/2nd/3rd Evaluate equal the reference under the effective configuration (last wins, order irrelevant, neutral settings == absence, hook replacement visible to operators).",
    "Reference as C01 incl. hook family; N found by bisection over the public option.", "DESIGN.md 5 C18")

E2 = "E2 language explorer (real grammar.Parse / CreateEvaluator / ExpressionDump vs reference PEG / renderer)"
chk("C10", "E2", "explicit enumeration of all byte strings up to length 4 (thorough 5) over lexical-class representatives, all short token sequences and all single bad-element injections into a derivation set, executed on the real CreateEvaluator/CreateFilter/Parse/Evaluate/Execute/ExpressionDump with a totality/shape oracle",
    "Every string of the bounded byte and token spaces: no panic anywhere, evaluator xor error (nil filter only for the empty string), Parse error nil iff CreateEvaluator accepts and then a non-nil Expression, accepted evaluators evaluate/filter/dump without panic and never return (true, err).",
    "Alphabet = one representative per lexical class (31 symbols) rather than all 256 byte values; no coverage-guided fuzzing (different family).", "DESIGN.md 5 C10")
chk("C15", "E2", "explicit enumeration of all token sequences up to k tokens x gap patterns and of the complete 1-edit neighbourhood of a derivation set, each parsed by the real parser and by an independent reference PEG interpreter; accept/reject and tree equality",
    "Every sequence of <=3 tokens (full 32-token alphabet, all gap patterns), <=2 over a 92-token extended alphabet, 4 over a 21-token sub-alphabet [thorough: 4 full with all 8 gap patterns, 3 extended, 5 sub] and every single-token insert/delete/replace/swap/duplicate of ~60 derivations: the real parser accepts exactly what the reference grammar accepts and builds the same tree.",
    "Reference grammar is a hand transcription of grammar.peg interpreted with pigeon's observable semantics (ordered choice, global errors, lookahead, UTF-8 validity); frozen, updated only with grammar fixes; C20 ties grammar.go to grammar.peg.", "DESIGN.md 5 C15")

chk("C11", "E2", "explicit enumeration of inputs x budgets (every n in 1..N+2 for small N, threshold neighbourhood + geometric sweep otherwise) on the real parser through a read-only step-count accessor added by the generated overlay",
    "For every input of the bounded set (token sequences, derivations, invalid variants, nested parentheses) and every budget of the sweep: n=0 or n>=N reproduces the unlimited result exactly, 0<n<N yields nil + the max-expressions error, a limited parse runs <= n+1 steps, CreateEvaluator agrees with Parse under the same budget, deep nesting is rejected within the budget (steps, not wall clock). Concurrent creations under different budgets: every interleaving of the E3 scenarios at the hooked option / budget plumbing; the free-running -race build of the same bodies is a labelled sampling complement for the parser state the overlay does not hook (reported under C11).",
    "Accessor grammar.VerifParse exists only in the overlay (build tag verif); message text learned from the implementation; bounded inputs.", "DESIGN.md 5 C11")

chk("C16", "E2", "explicit enumeration of all trees up to bounded depth x rendering choices (spellings, literal styles, redundant parentheses, not-not insertions, whitespace styles) and of all short literal strings in every legal quoting; each rendering parsed by the real parser and compared with the printed tree",
    "All trees of depth<=2 (3 leaves) and depth 3 (2 leaves; thorough 3) x per-node redundant parentheses / not-not / 3 whitespace styles, all leaf spelling combinations, and all strings of length<=3 (thorough 4) over a 14-character alphabet incl. quotes, backslash, leading slash, control characters: parse(print(t)) == t, literal text == spelled string, X == <quoted s> true of X = s.",
    "The printer (minimal parentheses per not > and > or, right grouping) is the harness's own; bounded depth/alphabet.", "DESIGN.md 5 C16")
chk("C19", "E2", "explicit enumeration of parser-produced trees x indent strings x start levels; ExpressionDump compared byte-for-byte with an independent reference renderer",
    "Every tree of the C16 spaces and every operator x spelling x literal (incl. escapes) x 4 indents x 3 levels: byte-equal to the reference rendering, no panic, deterministic; Selector.String on constructed selectors.",
    "Reference renderer reads tree fields only; %q == strconv.Quote.", "DESIGN.md 5 C19")

chk("C20", "E6", "complete synchronous product walk of two finite rule graphs (grammar.peg read by an own PEG-syntax reader vs the g table and on*/callon* functions of grammar.go read with go/ast), plus exhaustive rune-domain comparison of every character class, both as written in the table literal and as it exists in the rule table at run time",
    "Complete, unbounded: all 37 rules, every expression node pair, every literal/flag/label/reference, all 1,114,112 runes for each of the character classes, every action and predicate body after go/printer normalisation, parameter lists and wrapper argument order; nothing left unmatched.",
    "Structural equality of the shipped pair; run-time class tables read through a read-only accessor added by the generated overlay (build tag verif); positions/display strings reported not judged; the generic PEG engine is covered behaviourally by C15/C10/C11.", "DESIGN.md 5 C20")

chk("C14", "E5", "exhaustive exploration of every answer the environment may give at each map-iteration point (all n! key orders per call, depth-first over the sequence of calls) on the real Evaluate/Execute through the generated map-order seam",
    "For every (expression, datum) of the bounded space (maps of 2..4 [thorough 5] entries with every {T,F,E} assignment x any/all x binding modes, nested map-in-map / list-of-maps, filters over maps) ALL iteration-order answer sequences are executed on the real code: one outcome class per case (filters: same kept keys or same error-ness). A free-repetition pass is run as a labelled sampling complement.",
    "Seam generated from /repo's working tree for reflect MapKeys/MapRange and range-over-map; constructs it cannot seam are listed and only covered by the complement; bounded map sizes.", "DESIGN.md 5 C14")

chk("C12", "E3", "stateless exhaustive exploration of thread interleavings (depth-first, preemption-bounded, hot-set fixpoint) of the real code under a hand-written cooperative scheduler; state-based data-race oracle, sequential-result oracle, deadlock detection, schedule replay",
    "For 17 (thorough 22) scenarios of k threads x m calls on one shared Evaluator/Filter (2x1, 2x2, 3x1 with unbounded preemptions; 3x2 with bound 2, thorough 3) every interleaving at the visible operations is executed on the real code: no state with two enabled conflicting plain accesses, every call returns its sequential result, no deadlock; violating schedules are replayed twice before being reported. The free-running -race build of the same bodies is a labelled sampling complement for accesses the overlay does not hook.",
    "Visible operations = overlay-hooked accesses (own struct fields via pointer, package-level variables, map element writes) + shimmed sync/atomic; sequential consistency; dependencies' internals and goroutines spawned by the code under test are outside the model.", "DESIGN.md 5 C12")
chk("C13", "E4", "explicit-state breadth-first search to closure over the reachable states of an Evaluator/Filter (canonical deep hash incl. unexported fields and package globals) under an operation alphabet, successor = fresh instance + shortest-path replay + one real call; oracle on every transition",
    "For 32 (thorough 36) expression families x 8-12 operations the reachable state graph is searched until no new state appears (so the verdict covers histories of every length over the alphabet): each call's result equals a fresh evaluator's, the datum's deep hash is unchanged, Expression() is the creation string.",
    "State = everything reachable from the instance + both packages' globals (accessor generated by the overlay); closure relative to the operation alphabet; depth cap 8 reported if hit.", "DESIGN.md 5 C13")

REASON_NOT_BUILT = "check not built yet (in progress) - will be decided by bounded exhaustive exploration, see DESIGN.md"

def main():
    props = [json.loads(l) for l in open('/verif/properties.jsonl')]
    checks, na = [], []
    for p in props:
        i = p['id']
        if i in BUILT:
            b = BUILT[i]
            checks.append({
                "property_id": i,
                "quick_cmd": f"./run.sh {i} quick",
                "thorough_cmd": f"./run.sh {i} thorough",
                "evidence_file": f"/verif/evidence/{i}.json",
                "replay_cmd_template": "./run.sh --replay {path}",
                "engine": b['engine'],
                "level_claimed": {"category": "model_checking", "text": b['text'], "design_ref": b['ref']},
                "level_note": b['note'],
                "technique": b['technique'],
            })
        else:
            na.append({"property_id": i, "reason": REASON_NOT_BUILT})
    m = {
        "version": 1,
        "setup_cmd": "./setup.sh",
        "hooks": {
            "guard": "verif",
            "enable": "go build -tags verif -overlay <overlay.json generated by /verif/vinstr from /repo's current working tree>; no in-repo hook commits: the instrumentation (added accessor file, map-order seam, shared-access hooks) exists only in the generated overlay, /repo is never modified by the machinery",
            "baseline_off_cmd": "cd /repo && go test -vet=off -count=1 ./...",
            "source_commits": [],
            "add_only": True,
        },
        "engines": [
            {"name": "E6", "path": "/verif/mc/pegcmp/compare.go", "serves_properties": ["C20"], "kind_free_text": "E6 rule-graph product walker (grammar.peg vs grammar.go)"},
            {"name": "E3", "path": "/verif/mc/vrt/sched.go", "serves_properties": ["C12"], "kind_free_text": "E3 schedule explorer: cooperative scheduler + preemption-bounded DFS over overlay-hooked accesses and shimmed sync operations"},
            {"name": "E4", "path": "/verif/mc/checks/c13.go", "serves_properties": ["C13"], "kind_free_text": "E4 history explorer: BFS to closure over deep-hashed evaluator states"},
            {"name": "E5", "path": "/verif/mc/vrt/choose.go", "serves_properties": ["C14"], "kind_free_text": "E5 environment-choice explorer (map iteration order) over the overlay seam"},
            {"name": "E2", "path": "/verif/mc/checks/c15.go", "serves_properties": ["C10","C11","C15","C16","C19"], "kind_free_text": E2},
            {"name": "E1", "path": "/verif/mc/checks/e1.go", "serves_properties": ["C01","C02","C03","C04","C05","C06","C07","C08","C09","C17","C18"], "kind_free_text": E1},
        ],
        "checks": checks,
        "notes": "All checks: ./run.sh <ID> <quick|thorough> rebuilds the harness against /repo's working tree (replace => /repo) and shards the enumeration over 16 single-threaded worker processes. See DESIGN.md.",
        "not_applicable": na,
    }
    json.dump(m, open('/verif/MANIFEST.json', 'w'), indent=1)
    print("checks:", [c['property_id'] for c in checks])

main()
