#!/bin/bash
# tools/seedrun.sh [dirs...]  run every independently seeded change (seeded/<ID>[-rN]) against the check of the property it breaks
ids=${@:-$(ls /verif/seeded)}
for d in $ids; do
  id=${d%%-*}
  SKIPTESTS=1 /verif/tools/mutant.sh /verif/seeded/$d/patch.diff $id 2>&1 | grep -E "CAUGHT|MISSED|ERROR" | cut -c1-260 | sed "s/^/[$d] /"
done
