#!/bin/bash
# tools/seedrun.sh [IDs...]  run every independently seeded change against the check of the property it breaks
ids=${@:-$(ls /verif/seeded)}
for id in $ids; do
  SKIPTESTS=1 /verif/tools/mutant.sh /verif/seeded/$id/patch.diff $id 2>&1 | grep -E "CAUGHT|MISSED|ERROR" | cut -c1-260 | sed "s/^/[$id] /"
done
