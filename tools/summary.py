#!/usr/bin/env python3
"""prints a markdown table of what the evidence files of the last runs say"""
import json,glob
print("| id | tier | cases (states) | impl calls | non-trivial | exhaustive | wall s |")
print("|---|---|---|---|---|---|---|")
for f in sorted(glob.glob('/verif/evidence/*.json')):
    e=json.load(open(f)); c=e['coverage']
    print(f"| {e['property_id']} | {e['tier']} | {c['states']:,} | {c['evaluations']:,} | {c['distinct_nontrivial']:,} | {c['exhaustive']} | {e['wall_s']:.1f} |")
