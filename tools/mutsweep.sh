#!/bin/bash
# tools/mutsweep.sh [first [last]]  mechanical mutation sweep: every mutant of .build/mutsweep (tools/mutgen) that compiles and
# passes /repo's own tests is run against the quick checks, cheapest first, until one reports a violation.
# One line per mutant in .build/mutsweep/results.tsv:  n <TAB> verdict <TAB> description
export GOFLAGS=-mod=mod GOPROXY=off GOSUMDB=off GOTOOLCHAIN=local
export VERIF_EVIDENCE_DIR=/verif/.build/evidence-of-broken-trees
D=/verif/.build/mutsweep
ORDER="C19 C07 C17 C08 C03 C18 C05 C09 C01 C04 C06 C02 C16 C15 C20 C11 C13 C14 C12 C10"
first=${1:-1}; last=${2:-99999}
for m in $(ls $D | grep -E '^[0-9]+$'); do
  n=$((10#$m)); [ $n -lt $first ] && continue; [ $n -gt $last ] && continue
  grep -q "^$m	" $D/results.tsv 2>/dev/null && continue
  while [ -e $D/PAUSE ]; do sleep 10; done   # touch .build/mutsweep/PAUSE to give /repo to somebody else
  rel=$(cat $D/$m/path); desc=$(cat $D/$m/desc)
  (
    flock 9
    if ! git -C /repo diff --quiet; then echo "$m	REPO-DIRTY	$desc" >> $D/results.tsv; exit; fi
    trap 'git -C /repo checkout -- . ; git -C /repo clean -fdq' EXIT
    cp $D/$m/content /repo/$rel
    if ! (cd /repo && go build ./... >/dev/null 2>&1); then echo "$m	NOCOMPILE	$desc" >> $D/results.tsv; exit; fi
    if ! (cd /repo && timeout 300 go test -vet=off -count=1 ./... >/dev/null 2>&1); then echo "$m	KILLED-BY-REPO-TESTS	$desc" >> $D/results.tsv; exit; fi
    verdict=SURVIVED
    for id in $ORDER; do
      out=$(timeout 900 /verif/run.sh $id quick 2>&1); rc=$?
      if [ $rc -eq 1 ] && echo "$out" | grep -q "^VIOLATION property=$id"; then verdict="CAUGHT-$id $(echo "$out" | grep -A1 '^VIOLATION' | sed -n 2p | cut -c1-160)"; break; fi
      if [ $rc -ne 0 ]; then verdict="ERROR-$id-rc$rc $(echo "$out" | tail -2 | tr '\n' ' ' | cut -c1-200)"; break; fi
    done
    echo "$m	$verdict	$desc" >> $D/results.tsv
  ) 9>/verif/.build/repo.lock
done
