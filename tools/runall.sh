#!/bin/bash
# tools/runall.sh [quick|thorough] [IDs...]   run checks sequentially; summary line per check
tier=${1:-quick}; shift
ids=${@:-C01 C02 C03 C04 C05 C06 C07 C08 C09 C10 C11 C12 C13 C14 C15 C16 C17 C18 C19 C20}
for id in $ids; do
  s=$(date +%s)
  out=$(/verif/run.sh $id $tier 2>&1); rc=$?
  e=$(date +%s)
  echo "$id rc=$rc $((e-s))s :: $(echo "$out" | grep -E "^$id " | head -1)"
  [ $rc -ne 0 ] && echo "$out" | grep -A3 VIOLATION | head -12
done
