#!/usr/bin/env python3
import json, sys
pid = sys.argv[1]
props = {json.loads(l)['id']: json.loads(l) for l in open('/verif/properties.jsonl')}
p = props[pid]
print(f"""You are helping to evaluate a verification effort by writing a realistic, subtle bug.

Working directory: /tmp/wt/{pid} — a scratch git worktree of the Go library hashicorp/go-bexpr (a boolean filter-expression language: PEG parser in grammar/, reflection-based evaluator in evaluate.go, filter.go, options.go, bexpr.go). Work ONLY inside /tmp/wt/{pid} and /tmp/wtout/{pid}. Do not touch /repo, /verif or any other directory, and do not read anything under /verif.

Every shell command needs this environment (no network is available):
  export GOFLAGS=-mod=mod GOPROXY=off GOSUMDB=off GOTOOLCHAIN=local
The existing test suite is run with:  cd /tmp/wt/{pid} && go test -vet=off -count=1 ./...

This property of the library is supposed to hold:

  Title: {p['title']}
  Statement: {p['statement']}
  Quantified over: {p['quantifier']['text']}

Your task: make ONE small change to the library's non-test source files (.go files; if you change the grammar you must change grammar/grammar.peg AND grammar/grammar.go consistently, pigeon is not installed so grammar.go has to be edited by hand) that BREAKS this property, such that
  1. the library still compiles and the ENTIRE existing test suite still passes, unedited;
  2. the breakage needs something specific to manifest — a particular interleaving, a multi-step sequence of calls, an unusual input or type, a particular combination of options, or two cooperating code sites that each look fine alone — NOT something ordinary use would expose at once; it should look like a plausible refactoring / optimisation / feature mistake a maintainer could make, not sabotage (no magic constants or special-cased strings);
  3. you write a demonstration: a new Go test file (e.g. zz_demo_test.go in the affected package) that FAILS with your change and PASSES without it (on the untouched HEAD).

Deliverables in /tmp/wtout/{pid}/ :
  - patch.diff : output of `git diff` for the library change ONLY (not the demo test), applicable with `git apply` on HEAD;
  - the demonstration test file (copy of it), e.g. zz_demo_test.go, with a comment at the top saying in which package directory it belongs;
  - notes.md : what the change is, why the existing tests miss it, what exactly is needed for it to manifest, and the exact commands you ran with their results (existing tests pass with the change; demo fails with the change; demo passes without the change).
Verify all three claims yourself by actually running the commands (use `git stash` / `git apply -R` to switch between with/without). Leave the worktree with your change applied and the demo test present. Keep it to one change; aim for subtlety over size. Finish with a 5-line summary.""")
