#!/bin/bash
# tools/mutant.sh <patch.diff> <ID> [<ID>...]   apply a property-breaking change to /repo, run its tests and the given
# checks (quick tier unless TIER=thorough), and always revert. Prints one line per check: CAUGHT / MISSED.
export GOFLAGS=-mod=mod GOPROXY=off GOSUMDB=off GOTOOLCHAIN=local
export VERIF_EVIDENCE_DIR=/verif/.build/evidence-of-broken-trees
P=$(realpath "$1"); shift
exec 9>/verif/.build/repo.lock; flock 9   # /repo is shared with tools/mutsweep.sh
if ! git -C /repo diff --quiet; then echo "/repo is dirty"; exit 2; fi
git -C /repo apply "$P" || { echo "patch does not apply"; exit 2; }
trap 'git -C /repo checkout -- . ; git -C /repo clean -fdq' EXIT
if [ -z "${SKIPTESTS:-}" ]; then
  if (cd /repo && go test -vet=off -count=1 ./... >/tmp/mutant-test.log 2>&1); then echo "repo tests: pass"; else echo "repo tests: FAIL (mutant not admissible)"; tail -5 /tmp/mutant-test.log; fi
fi
for id in "$@"; do
  out=$(/verif/run.sh "$id" "${TIER:-quick}" 2>&1); rc=$?
  if [ $rc -eq 1 ] && echo "$out" | grep -q "^VIOLATION property=$id"; then echo "CAUGHT $id: $(echo "$out" | grep -A1 '^VIOLATION' | head -2 | tr '\n' ' ' | cut -c1-300)";
  elif [ $rc -eq 0 ]; then echo "MISSED $id"; else echo "ERROR $id rc=$rc: $(echo "$out" | tail -3)"; fi
done
