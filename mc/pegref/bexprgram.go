package pegref

import (
	"errors"
	"strconv"
	"strings"
	"unicode"
)

// reference AST
type RSel struct {
	Type int // 1 bexpr, 2 jsonptr
	Path []string
}
type RMatch struct {
	Sel RSel
	Op  int
	Val *string
}
type RNot struct{ X any }
type RBin struct {
	Op   int // 0 and, 1 or
	L, R any
}
type RBind struct {
	Mode                  string
	Default, Index, Value string
}
type RColl struct {
	Op    string
	Sel   RSel
	Bind  RBind
	Inner any
}

const (
	opEq = iota
	opNe
	opIn
	opNotIn
	opEmpty
	opNotEmpty
	opMatches
	opNotMatches
)

func selString(s RSel) string {
	if len(s.Path) == 0 {
		return ""
	}
	if s.Type == 1 {
		return strings.Join(s.Path, ".")
	}
	return strings.Join(s.Path, "/")
}

func seq(items ...node) node    { return &Seq{items} }
func alt(alts ...node) node     { return &Choice{alts} }
func lit(s string) node         { return &Lit{s} }
func ref(s string) node         { return &Ref{s} }
func lab(n string, e node) node { return &Label{n, e} }
func opt(e node) node           { return &Opt{e} }
func star(e node) node          { return &Star{e} }
func plus(e node) node          { return &Plus{e} }
func not(e node) node           { return &Not{e} }
func and(e node) node           { return &And{e} }
func act(e node, fn func(c *ctx) (any, error)) node {
	return &Action{e, fn}
}
func pred(msg string) node {
	return &Pred{func(c *ctx) (bool, error) { return false, errors.New(msg) }}
}
func class(fn func(r rune) bool) node { return &Class{fn} }

var ws = ref("_")
var ows = opt(ref("_"))

func passExpr(c *ctx) (any, error) { return c.labels["expr"], nil }

func constOp(op int, e node) node {
	return act(e, func(c *ctx) (any, error) { return op, nil })
}

func jsonPtrUnescape(p string) string {
	return strings.Replace(strings.Replace(p, "~1", "/", -1), "~0", "~", -1)
}

func Grammar() map[string]node {
	g := map[string]node{}
	g["Input"] = alt(
		act(seq(ows, lit("("), ows, lab("expr", ref("OrExpression")), ows, lit(")"), ows, ref("EOF")), passExpr),
		act(seq(ows, lab("expr", ref("OrExpression")), ows, ref("EOF")), passExpr),
	)
	g["OrExpression"] = alt(
		act(seq(lab("left", ref("AndExpression")), ws, lit("or"), ws, lab("right", ref("OrExpression"))), func(c *ctx) (any, error) {
			return &RBin{Op: 1, L: c.labels["left"], R: c.labels["right"]}, nil
		}),
		act(lab("expr", ref("AndExpression")), passExpr),
		act(lab("expr", ref("CollectionExpression")), passExpr),
	)
	g["AndExpression"] = alt(
		act(seq(lab("left", ref("NotExpression")), ws, lit("and"), ws, lab("right", ref("AndExpression"))), func(c *ctx) (any, error) {
			return &RBin{Op: 0, L: c.labels["left"], R: c.labels["right"]}, nil
		}),
		act(lab("expr", ref("NotExpression")), passExpr),
	)
	g["NotExpression"] = alt(
		act(seq(lit("not"), ws, lab("expr", ref("NotExpression"))), func(c *ctx) (any, error) {
			if u, ok := c.labels["expr"].(*RNot); ok {
				return u.X, nil
			}
			return &RNot{c.labels["expr"]}, nil
		}),
		act(lab("expr", ref("ParenthesizedExpression")), passExpr),
	)
	g["CollectionExpression"] = act(seq(
		lab("op", alt(ref("CollectionOpAny"), ref("CollectionOpAll"))),
		lab("selector", ref("Selector")), ws, lit("as"), ws, lab("binding", ref("CollectionIdentifiers")),
		ows, lit("{"), ows, lab("expr", ref("OrExpression")), ows, lit("}")), func(c *ctx) (any, error) {
		return &RColl{Op: c.labels["op"].(string), Sel: c.labels["selector"].(RSel), Bind: c.labels["binding"].(RBind), Inner: c.labels["expr"]}, nil
	})
	g["CollectionIdentifiers"] = alt(
		act(seq(lab("id1", ref("Identifier")), ows, lit(","), ows, lab("id2", ref("Identifier"))), func(c *ctx) (any, error) {
			return RBind{Mode: "Index & Value", Index: c.labels["id1"].(string), Value: c.labels["id2"].(string)}, nil
		}),
		act(seq(lab("id1", ref("Identifier")), ows, lit(","), ows, lit("_")), func(c *ctx) (any, error) {
			return RBind{Mode: "Index", Index: c.labels["id1"].(string)}, nil
		}),
		act(seq(lit("_"), ows, lit(","), ows, lab("id2", ref("Identifier"))), func(c *ctx) (any, error) {
			return RBind{Mode: "Value", Value: c.labels["id2"].(string)}, nil
		}),
		act(lab("id", ref("Identifier")), func(c *ctx) (any, error) {
			return RBind{Mode: "Default", Default: c.labels["id"].(string)}, nil
		}),
	)
	g["CollectionOpAny"] = act(seq(lit("any"), ws), func(c *ctx) (any, error) { return "ANY", nil })
	g["CollectionOpAll"] = act(seq(lit("all"), ws), func(c *ctx) (any, error) { return "ALL", nil })
	g["ParenthesizedExpression"] = alt(
		act(seq(lit("("), ows, lab("expr", ref("OrExpression")), ows, lit(")")), passExpr),
		act(lab("expr", ref("MatchExpression")), passExpr),
		seq(lit("("), ows, ref("OrExpression"), ows, not(lit(")")), pred("Unmatched parentheses")),
	)
	g["MatchExpression"] = alt(ref("MatchSelectorOpValue"), ref("MatchSelectorOp"), ref("MatchValueOpSelector"))
	mk := func(c *ctx) (any, error) {
		m := &RMatch{Sel: c.labels["selector"].(RSel), Op: c.labels["operator"].(int)}
		if v, ok := c.labels["value"]; ok {
			s := v.(string)
			m.Val = &s
		}
		return m, nil
	}
	g["MatchSelectorOpValue"] = act(seq(lab("selector", ref("Selector")),
		lab("operator", alt(ref("MatchEqual"), ref("MatchNotEqual"), ref("MatchContains"), ref("MatchNotContains"), ref("MatchMatches"), ref("MatchNotMatches"))),
		lab("value", ref("Value"))), mk)
	g["MatchSelectorOp"] = act(seq(lab("selector", ref("Selector")), lab("operator", alt(ref("MatchIsEmpty"), ref("MatchIsNotEmpty")))), mk)
	g["MatchValueOpSelector"] = alt(
		act(seq(lab("value", ref("Value")), lab("operator", alt(ref("MatchIn"), ref("MatchNotIn"))), lab("selector", ref("Selector"))), mk),
		seq(ref("Value"), lab("operator", alt(ref("MatchIn"), ref("MatchNotIn"))), not(ref("Selector")), pred("Invalid selector")),
	)
	g["MatchEqual"] = constOp(opEq, seq(ows, lit("=="), ows))
	g["MatchNotEqual"] = constOp(opNe, seq(ows, lit("!="), ows))
	g["MatchIsEmpty"] = constOp(opEmpty, seq(ws, lit("is"), ws, lit("empty")))
	g["MatchIsNotEmpty"] = constOp(opNotEmpty, seq(ws, lit("is"), ws, lit("not"), ws, lit("empty")))
	g["MatchIn"] = constOp(opIn, seq(ws, lit("in"), ws))
	g["MatchNotIn"] = constOp(opNotIn, seq(ws, lit("not"), ws, lit("in"), ws))
	g["MatchContains"] = constOp(opIn, seq(ws, lit("contains"), ws))
	g["MatchNotContains"] = constOp(opNotIn, seq(ws, lit("not"), ws, lit("contains"), ws))
	g["MatchMatches"] = constOp(opMatches, seq(ws, lit("matches"), ws))
	g["MatchNotMatches"] = constOp(opNotMatches, seq(ws, lit("not"), ws, lit("matches"), ws))
	g["Selector"] = alt(
		act(seq(lab("first", ref("Identifier")), lab("rest", star(ref("SelectorOrIndex")))), func(c *ctx) (any, error) {
			s := RSel{Type: 1, Path: []string{c.labels["first"].(string)}}
			if r, _ := c.labels["rest"].([]any); r != nil {
				for _, v := range r {
					s.Path = append(s.Path, v.(string))
				}
			}
			return s, nil
		}),
		act(seq(lit(`"`), lab("ptrsegs", star(ref("JsonPointerSegment"))), lit(`"`)), func(c *ctx) (any, error) {
			s := RSel{Type: 2}
			if r, _ := c.labels["ptrsegs"].([]any); r != nil {
				for _, v := range r {
					s.Path = append(s.Path, v.(string))
				}
			}
			// "/" + join, then RFC6901 split+unescape
			joined := strings.Join(s.Path, "/")
			parts := strings.Split(joined, "/")
			for i := range parts {
				parts[i] = jsonPtrUnescape(parts[i])
			}
			s.Path = parts
			return s, nil
		}),
	)
	g["JsonPointerSegment"] = act(seq(lit("/"), lab("ident", plus(class(func(r rune) bool {
		return unicode.IsLetter(r) || unicode.IsNumber(r) || strings.ContainsRune("-_.~:|", r)
	})))), func(c *ctx) (any, error) { return c.text[1:], nil })
	isAlpha := func(r rune) bool { return (r >= 'a' && r <= 'z') || (r >= 'A' && r <= 'Z') }
	isDigit := func(r rune) bool { return r >= '0' && r <= '9' }
	g["Identifier"] = act(seq(class(isAlpha), star(class(func(r rune) bool { return isAlpha(r) || isDigit(r) || r == '_' || r == '/' }))),
		func(c *ctx) (any, error) { return c.text, nil })
	g["SelectorOrIndex"] = alt(
		act(seq(lit("."), lab("ident", ref("Identifier"))), func(c *ctx) (any, error) { return c.labels["ident"], nil }),
		act(lab("expr", ref("IndexExpression")), passExpr),
		act(seq(lit("."), lab("idx", plus(class(isDigit)))), func(c *ctx) (any, error) { return c.text[1:], nil }),
	)
	g["IndexExpression"] = alt(
		act(seq(lit("["), ows, lab("lit", ref("StringLiteral")), ows, lit("]")), func(c *ctx) (any, error) { return c.labels["lit"], nil }),
		seq(lit("["), ows, not(ref("StringLiteral")), pred("Invalid index")),
		seq(lit("["), ows, ref("StringLiteral"), ows, not(lit("]")), pred("Unclosed index expression")),
	)
	g["Value"] = alt(
		act(lab("selector", ref("Selector")), func(c *ctx) (any, error) {
			// a quoted value keeps its spelled text even when it looks like a JSON pointer
			if sel := c.labels["selector"].(RSel); sel.Type == 2 {
				return c.text[1 : len(c.text)-1], nil
			}
			return selString(c.labels["selector"].(RSel)), nil
		}),
		act(lab("n", ref("NumberLiteral")), func(c *ctx) (any, error) { return c.labels["n"], nil }),
		act(lab("s", ref("StringLiteral")), func(c *ctx) (any, error) { return c.labels["s"], nil }),
	)
	g["NumberLiteral"] = alt(
		act(seq(opt(lit("-")), ref("IntegerOrFloat"), and(ref("AfterNumbers"))), func(c *ctx) (any, error) { return c.text, nil }),
		seq(opt(lit("-")), ref("IntegerOrFloat"), not(ref("AfterNumbers")), pred("Invalid number literal")),
	)
	g["AfterNumbers"] = and(alt(ref("_"), ref("EOF"), lit(")"), lit("}")))
	g["IntegerOrFloat"] = seq(alt(lit("0"), seq(class(func(r rune) bool { return r >= '1' && r <= '9' }), star(class(isDigit)))), opt(seq(lit("."), plus(class(isDigit)))))
	g["StringLiteral"] = alt(
		act(alt(seq(lit("`"), star(ref("RawStringChar")), lit("`")), seq(lit(`"`), star(ref("DoubleStringChar")), lit(`"`))), func(c *ctx) (any, error) {
			return strconv.Unquote(c.text)
		}),
		seq(alt(seq(lit("`"), star(ref("RawStringChar"))), seq(lit(`"`), star(ref("DoubleStringChar")))), ref("EOF"), pred("Unterminated string literal")),
	)
	g["RawStringChar"] = seq(not(lit("`")), &Any{})
	g["DoubleStringChar"] = seq(not(lit(`"`)), &Any{})
	g["_"] = plus(class(func(r rune) bool { return r == ' ' || r == '\t' || r == '\r' || r == '\n' }))
	g["EOF"] = not(&Any{})
	return g
}
