package pegref

import (
	"errors"
	"unicode/utf8"
)

// ---- generic PEG interpreter with pigeon-observable semantics ----

type node interface{}

type (
	Seq    struct{ items []node }
	Choice struct{ alts []node }
	Lit    struct{ s string }
	Class  struct{ fn func(r rune) bool }
	Any    struct{}
	Ref    struct{ name string }
	Star   struct{ e node }
	Plus   struct{ e node }
	Opt    struct{ e node }
	And    struct{ e node }
	Not    struct{ e node }
	Label  struct {
		name string
		e    node
	}
	Action struct {
		e  node
		fn func(c *ctx) (any, error)
	}
	Pred struct {
		fn func(c *ctx) (bool, error)
	}
)

type ctx struct {
	text   string
	labels map[string]any
}

type memoKey struct {
	rule string
	pos  int
}
type memoVal struct {
	v   any
	end int
	ok  bool
}

var errAbort = errors.New("abort")

type interp struct {
	rules map[string]node
	in    []byte
	memo  map[memoKey]memoVal
	err   error // first recorded error
}

func (p *interp) fail(err error) {
	if p.err == nil {
		p.err = err
	}
	panic(errAbort)
}

// rune at pos; w==0 at EOF
func (p *interp) at(pos int) (rune, int) {
	if pos >= len(p.in) {
		return utf8.RuneError, 0
	}
	return utf8.DecodeRune(p.in[pos:])
}

func (p *interp) parse(n node, pos int, labels map[string]any) (any, int, bool) {
	switch n := n.(type) {
	case *Seq:
		vals := make([]any, 0, len(n.items))
		cur := pos
		for _, it := range n.items {
			v, e, ok := p.parse(it, cur, labels)
			if !ok {
				return nil, pos, false
			}
			vals = append(vals, v)
			cur = e
		}
		return vals, cur, true
	case *Choice:
		for _, a := range n.alts {
			v, e, ok := p.parse(a, pos, map[string]any{})
			if ok {
				return v, e, true
			}
		}
		return nil, pos, false
	case *Lit:
		cur := pos
		for _, want := range n.s {
			r, w := p.at(cur)
			if w == 0 || r != want || (r == utf8.RuneError && w == 1) {
				return nil, pos, false
			}
			cur += w
		}
		return n.s, cur, true
	case *Class:
		r, w := p.at(pos)
		if w == 0 {
			return nil, pos, false
		}
		if n.fn(r) {
			return string(p.in[pos : pos+w]), pos + w, true
		}
		return nil, pos, false
	case *Any:
		_, w := p.at(pos)
		if w == 0 {
			return nil, pos, false
		}
		return string(p.in[pos : pos+w]), pos + w, true
	case *Ref:
		k := memoKey{n.name, pos}
		if m, ok := p.memo[k]; ok {
			return m.v, m.end, m.ok
		}
		r, ok := p.rules[n.name]
		if !ok {
			panic("undefined rule " + n.name)
		}
		v, e, ok2 := p.parse(r, pos, map[string]any{})
		p.memo[k] = memoVal{v, e, ok2}
		return v, e, ok2
	case *Star:
		var vals []any
		cur := pos
		for {
			v, e, ok := p.parse(n.e, cur, map[string]any{})
			if !ok {
				return vals, cur, true
			}
			vals = append(vals, v)
			if e == cur {
				panic("star: no progress")
			}
			cur = e
		}
	case *Plus:
		var vals []any
		cur := pos
		for {
			v, e, ok := p.parse(n.e, cur, map[string]any{})
			if !ok {
				if len(vals) == 0 {
					return nil, pos, false
				}
				return vals, cur, true
			}
			vals = append(vals, v)
			cur = e
		}
	case *Opt:
		v, e, ok := p.parse(n.e, pos, map[string]any{})
		if !ok {
			return nil, pos, true
		}
		return v, e, true
	case *And:
		_, _, ok := p.parse(n.e, pos, map[string]any{})
		return nil, pos, ok
	case *Not:
		_, _, ok := p.parse(n.e, pos, map[string]any{})
		return nil, pos, !ok
	case *Label:
		v, e, ok := p.parse(n.e, pos, map[string]any{})
		if ok {
			labels[n.name] = v
		}
		return v, e, ok
	case *Action:
		v, e, ok := p.parse(n.e, pos, labels)
		if !ok {
			return v, e, false
		}
		av, err := n.fn(&ctx{text: string(p.in[pos:e]), labels: labels})
		if err != nil {
			p.fail(err)
		}
		return av, e, true
	case *Pred:
		ok, err := n.fn(&ctx{labels: labels})
		if err != nil {
			p.fail(err)
		}
		return nil, pos, ok
	}
	panic("unknown node")
}

// Run returns (ast, accepted)
func Run(rules map[string]node, start string, in []byte) (res any, accepted bool) {
	if !utf8.Valid(in) {
		return nil, false
	}
	p := &interp{rules: rules, in: in, memo: map[memoKey]memoVal{}}
	defer func() {
		if r := recover(); r != nil {
			if r == errAbort {
				res, accepted = nil, false
				return
			}
			// type assertion panics inside actions -> parse error in pigeon (recovered)
			if _, ok := r.(error); ok {
				res, accepted = nil, false
				return
			}
			panic(r)
		}
	}()
	v, _, ok := p.parse(&Ref{start}, 0, map[string]any{})
	if !ok {
		return nil, false
	}
	return v, true
}
