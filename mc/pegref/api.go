package pegref

import (
	"fmt"
	"reflect"

	"github.com/hashicorp/go-bexpr/grammar"
)

var theGrammar = Grammar()

// Parse runs the reference recogniser / AST builder.
func Parse(in []byte) (any, bool) { return Run(theGrammar, "Input", in) }

// FromImpl converts the implementation's syntax tree into the reference AST form.
func FromImpl(e any) any {
	switch n := e.(type) {
	case *grammar.MatchExpression:
		m := &RMatch{Sel: RSel{Type: int(n.Selector.Type), Path: n.Selector.Path}, Op: int(n.Operator)}
		if n.Value != nil {
			s := n.Value.Raw
			m.Val = &s
		}
		return m
	case *grammar.UnaryExpression:
		return &RNot{FromImpl(n.Operand)}
	case *grammar.BinaryExpression:
		return &RBin{Op: int(n.Operator), L: FromImpl(n.Left), R: FromImpl(n.Right)}
	case *grammar.CollectionExpression:
		return &RColl{Op: string(n.Op), Sel: RSel{Type: int(n.Selector.Type), Path: n.Selector.Path},
			Bind: RBind{Mode: string(n.NameBinding.Mode), Default: n.NameBinding.Default, Index: n.NameBinding.Index, Value: n.NameBinding.Value}, Inner: FromImpl(n.Inner)}
	}
	return fmt.Sprintf("?%T", e)
}

func Equal(a, b any) bool { return reflect.DeepEqual(a, b) }

// Show renders a reference AST compactly (diagnostics only).
func Show(e any) string {
	switch n := e.(type) {
	case *RMatch:
		v := "<nil>"
		if n.Val != nil {
			v = fmt.Sprintf("%q", *n.Val)
		}
		return fmt.Sprintf("Match{sel=%d%q op=%d val=%s}", n.Sel.Type, n.Sel.Path, n.Op, v)
	case *RNot:
		return "Not{" + Show(n.X) + "}"
	case *RBin:
		return fmt.Sprintf("Bin%d{%s, %s}", n.Op, Show(n.L), Show(n.R))
	case *RColl:
		return fmt.Sprintf("Coll{%s sel=%d%q bind=%v %s}", n.Op, n.Sel.Type, n.Sel.Path, n.Bind, Show(n.Inner))
	}
	return fmt.Sprintf("%v", e)
}
