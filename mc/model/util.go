package model

import (
	"reflect"
	"strings"
	"unsafe"
)

func unsafePointer(f reflect.Value) unsafe.Pointer { return unsafe.Pointer(f.UnsafeAddr()) }
func stringsNewReader(s string) *strings.Reader    { return strings.NewReader(s) }
