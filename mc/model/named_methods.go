package model

import "fmt"

// The named scalar types of the universe carry the method sets that "smart" comparison or printing code keys on
// (encoding.TextMarshaler, fmt.Stringer, json.Marshaler): the library must keep treating them by their KIND. The
// texts deliberately differ from the natural spelling of the value, so code that compares or looks up through them
// disagrees with the kind-based reference.
func txt(v interface{}) []byte   { return []byte(fmt.Sprintf("T<%v>", v)) }
func strOf(v interface{}) string { return fmt.Sprintf("S<%v>", v) }

func (v MyBool) MarshalText() ([]byte, error)    { return txt(bool(v)), nil }
func (v MyInt) MarshalText() ([]byte, error)     { return txt(int(v)), nil }
func (v MyInt8) MarshalText() ([]byte, error)    { return txt(int8(v)), nil }
func (v MyInt16) MarshalText() ([]byte, error)   { return txt(int16(v)), nil }
func (v MyInt32) MarshalText() ([]byte, error)   { return txt(int32(v)), nil }
func (v MyInt64) MarshalText() ([]byte, error)   { return txt(int64(v)), nil }
func (v MyUint) MarshalText() ([]byte, error)    { return txt(uint(v)), nil }
func (v MyUint8) MarshalText() ([]byte, error)   { return txt(uint8(v)), nil }
func (v MyUint16) MarshalText() ([]byte, error)  { return txt(uint16(v)), nil }
func (v MyUint32) MarshalText() ([]byte, error)  { return txt(uint32(v)), nil }
func (v MyUint64) MarshalText() ([]byte, error)  { return txt(uint64(v)), nil }
func (v MyFloat32) MarshalText() ([]byte, error) { return txt(float32(v)), nil }
func (v MyFloat64) MarshalText() ([]byte, error) { return txt(float64(v)), nil }
func (v MyString) MarshalText() ([]byte, error)  { return txt(string(v)), nil }

func (v MyBool) String() string    { return strOf(bool(v)) }
func (v MyInt) String() string     { return strOf(int(v)) }
func (v MyInt8) String() string    { return strOf(int8(v)) }
func (v MyInt16) String() string   { return strOf(int16(v)) }
func (v MyInt32) String() string   { return strOf(int32(v)) }
func (v MyInt64) String() string   { return strOf(int64(v)) }
func (v MyUint) String() string    { return strOf(uint(v)) }
func (v MyUint8) String() string   { return strOf(uint8(v)) }
func (v MyUint16) String() string  { return strOf(uint16(v)) }
func (v MyUint32) String() string  { return strOf(uint32(v)) }
func (v MyUint64) String() string  { return strOf(uint64(v)) }
func (v MyFloat32) String() string { return strOf(float32(v)) }
func (v MyFloat64) String() string { return strOf(float64(v)) }
func (v MyString) String() string  { return strOf(string(v)) }

func (v MyInt) MarshalJSON() ([]byte, error)    { return []byte(`"J"`), nil }
func (v MyString) MarshalJSON() ([]byte, error) { return []byte(`"J"`), nil }
