package model

import (
	"strconv"
	"strings"
)

func isIdent(s string) bool {
	if s == "" {
		return false
	}
	for i, r := range s {
		al := (r >= 'a' && r <= 'z') || (r >= 'A' && r <= 'Z')
		if i == 0 && !al {
			return false
		}
		if !(al || (r >= '0' && r <= '9') || r == '_' || r == '/') {
			return false
		}
	}
	return true
}
func isDigits(s string) bool {
	if s == "" {
		return false
	}
	for _, r := range s {
		if r < '0' || r > '9' {
			return false
		}
	}
	return true
}

func renderSel(p []string) string {
	var sb strings.Builder
	sb.WriteString(p[0])
	for _, x := range p[1:] {
		switch {
		case isIdent(x):
			sb.WriteString("." + x)
		case isDigits(x):
			sb.WriteString("." + x)
		default:
			sb.WriteString("[" + strconv.Quote(x) + "]")
		}
	}
	return sb.String()
}

func renderLit(s string) string {
	if !strings.ContainsAny(s, "`\r") {
		return "`" + s + "`"
	}
	return strconv.Quote(s)
}

func Render(e any) string {
	switch n := e.(type) {
	case *Match:
		sel := renderSel(n.Sel)
		switch n.Op {
		case OpEq:
			return sel + " == " + renderLit(n.Lit)
		case OpNe:
			return sel + " != " + renderLit(n.Lit)
		case OpIn:
			return renderLit(n.Lit) + " in " + sel
		case OpNotIn:
			return renderLit(n.Lit) + " not in " + sel
		case OpEmpty:
			return sel + " is empty"
		case OpNotEmpty:
			return sel + " is not empty"
		case OpMatches:
			return sel + " matches " + renderLit(n.Lit)
		case OpNotMatches:
			return sel + " not matches " + renderLit(n.Lit)
		}
	case *Not:
		return "not (" + Render(n.X) + ")"
	case *Bin:
		op := " and "
		if n.Or {
			op = " or "
		}
		return "(" + Render(n.L) + ")" + op + "(" + Render(n.R) + ")"
	case *Quant:
		kw := "any "
		if n.All {
			kw = "all "
		}
		var b string
		switch n.Mode {
		case BindDefault:
			b = n.Val
		case BindIndex:
			b = n.Idx + ", _"
		case BindValue:
			b = "_, " + n.Val
		case BindBoth:
			b = n.Idx + ", " + n.Val
		}
		return kw + renderSel(n.Sel) + " as " + b + " { " + Render(n.Body) + " }"
	}
	panic("render")
}
