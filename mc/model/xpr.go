package model

import (
	"strconv"
	"strings"
	"unicode"
	"unicode/utf8"
)

func isIdent(s string) bool {
	if s == "" {
		return false
	}
	for i, r := range s {
		al := (r >= 'a' && r <= 'z') || (r >= 'A' && r <= 'Z')
		if i == 0 && !al {
			return false
		}
		if !(al || (r >= '0' && r <= '9') || r == '_' || r == '/') {
			return false
		}
	}
	return true
}
func isDigits(s string) bool {
	if s == "" {
		return false
	}
	for _, r := range s {
		if r < '0' || r > '9' {
			return false
		}
	}
	return true
}

// jsonPointerOK: can part be spelled as a JSON-pointer segment of the grammar ([\pL\pN-_.~:|]+ after ~0/~1 escaping)
func jsonPointerOK(part string) bool {
	if part == "" {
		return false
	}
	for _, r := range part {
		if !(unicode.IsLetter(r) || unicode.IsNumber(r) || strings.ContainsRune("-_.~:|/", r)) {
			return false
		}
	}
	return true
}

func RenderJSONPointer(p []string) string {
	if len(p) == 1 && p[0] == "" {
		return `""` // the member with the empty name: the grammar's segments are non-empty, the zero-segment pointer stands for it
	}
	var sb strings.Builder
	sb.WriteByte('"')
	for _, x := range p {
		sb.WriteByte('/')
		sb.WriteString(strings.ReplaceAll(strings.ReplaceAll(x, "~", "~0"), "/", "~1"))
	}
	sb.WriteByte('"')
	return sb.String()
}

func RenderSel(p []string) string {
	if !isIdent(p[0]) || strings.Contains(p[0], "/") {
		return RenderJSONPointer(p)
	}
	var sb strings.Builder
	sb.WriteString(p[0])
	for _, x := range p[1:] {
		switch {
		case isIdent(x):
			sb.WriteString("." + x)
		case isDigits(x):
			sb.WriteString("." + x)
		default:
			sb.WriteString("[" + strconv.Quote(x) + "]")
		}
	}
	return sb.String()
}

func RenderLit(s string) string {
	if !strings.ContainsAny(s, "`\r") && utf8.ValidString(s) {
		return "`" + s + "`"
	}
	return strconv.Quote(s) // bytes that are not UTF-8 can only be spelled by an escape
}

func Render(e any) string {
	switch n := e.(type) {
	case *Match:
		sel := RenderSel(n.Sel)
		if n.JP {
			sel = RenderJSONPointer(n.Sel)
		}
		RenderLit := RenderLit
		switch n.Style {
		case StyleQuoted:
			RenderLit = strconv.Quote
		case StyleBare:
			RenderLit = func(s string) string { return s }
		}
		switch n.Op {
		case OpEq:
			return sel + " == " + RenderLit(n.Lit)
		case OpNe:
			return sel + " != " + RenderLit(n.Lit)
		case OpIn:
			return RenderLit(n.Lit) + " in " + sel
		case OpNotIn:
			return RenderLit(n.Lit) + " not in " + sel
		case OpEmpty:
			return sel + " is empty"
		case OpNotEmpty:
			return sel + " is not empty"
		case OpMatches:
			return sel + " matches " + RenderLit(n.Lit)
		case OpNotMatches:
			return sel + " not matches " + RenderLit(n.Lit)
		}
	case *Not:
		return "not (" + Render(n.X) + ")"
	case *Bin:
		op := " and "
		if n.Or {
			op = " or "
		}
		return "(" + Render(n.L) + ")" + op + "(" + Render(n.R) + ")"
	case *Quant:
		kw := "any "
		if n.All {
			kw = "all "
		}
		var b string
		switch n.Mode {
		case BindDefault:
			b = n.Val
		case BindIndex:
			b = n.Idx + ", _"
		case BindValue:
			b = "_, " + n.Val
		case BindBoth:
			b = n.Idx + ", " + n.Val
		}
		qs := RenderSel(n.Sel)
		if n.JP {
			qs = RenderJSONPointer(n.Sel)
		}
		return kw + qs + " as " + b + " { " + Render(n.Body) + " }"
	}
	panic("render")
}
