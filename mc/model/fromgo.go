package model

import (
	"encoding/json"
	"reflect"
	"sort"
)

var jsonNumberRT = reflect.TypeOf(json.Number(""))

// TypeFromGo maps a reflect.Type onto the abstract type universe (nil if unsupported).
func TypeFromGo(t reflect.Type) *Type {
	if t == jsonNumberRT {
		return Sc(KJSONNumber, false)
	}
	if t == wrapperRT {
		return &Type{K: KStruct, Wrapper: true, Fields: []FieldT{{Name: "W", Exported: true, T: TAny}}}
	}
	named := t.PkgPath() != ""
	switch t.Kind() {
	case reflect.Bool:
		return Sc(KBool, named)
	case reflect.Int:
		return Sc(KInt, named)
	case reflect.Int8:
		return Sc(KInt8, named)
	case reflect.Int16:
		return Sc(KInt16, named)
	case reflect.Int32:
		return Sc(KInt32, named)
	case reflect.Int64:
		return Sc(KInt64, named)
	case reflect.Uint:
		return Sc(KUint, named)
	case reflect.Uint8:
		return Sc(KUint8, named)
	case reflect.Uint16:
		return Sc(KUint16, named)
	case reflect.Uint32:
		return Sc(KUint32, named)
	case reflect.Uint64:
		return Sc(KUint64, named)
	case reflect.Float32:
		return Sc(KFloat32, named)
	case reflect.Float64:
		return Sc(KFloat64, named)
	case reflect.String:
		return Sc(KString, named)
	case reflect.Interface:
		return TAny
	case reflect.Ptr:
		return &Type{K: KPtr, Elem: TypeFromGo(t.Elem())}
	case reflect.Slice:
		return &Type{K: KSlice, Elem: TypeFromGo(t.Elem())}
	case reflect.Array:
		return &Type{K: KArray, Elem: TypeFromGo(t.Elem()), Len: t.Len()}
	case reflect.Map:
		return &Type{K: KMap, Key: TypeFromGo(t.Key()), Elem: TypeFromGo(t.Elem())}
	case reflect.Struct:
		st := &Type{K: KStruct}
		for i := 0; i < t.NumField(); i++ {
			f := t.Field(i)
			st.Fields = append(st.Fields, FieldT{Name: f.Name, Tag: string(f.Tag), Exported: f.PkgPath == "", T: TypeFromGo(f.Type)})
		}
		return st
	}
	panic("TypeFromGo: unsupported " + t.String())
}

// FromGo converts a Go value into an abstract document (used for JSON-decoded
// documents and statically declared Go types). Map entries are sorted by key text.
func FromGo(v reflect.Value) *Node {
	t := TypeFromGo(v.Type())
	n := &Node{T: t}
	switch k := t.K; {
	case k == KBool:
		n.B = v.Bool()
	case k.isInt():
		n.I = v.Int()
	case k.isUint():
		n.U = v.Uint()
	case k.isFloat():
		n.F = v.Float()
	case k.isStr():
		n.S = v.String()
	case k == KIface:
		if v.IsNil() {
			n.Nil = true
		} else {
			n.Items = []*Node{FromGo(v.Elem())}
		}
	case k == KPtr:
		if v.IsNil() {
			n.Nil = true
		} else {
			n.Items = []*Node{FromGo(v.Elem())}
		}
	case k == KSlice:
		if v.IsNil() {
			n.Nil = true
			break
		}
		fallthrough
	case k == KArray:
		for i := 0; i < v.Len(); i++ {
			n.Items = append(n.Items, FromGo(v.Index(i)))
		}
	case k == KMap:
		if v.IsNil() {
			n.Nil = true
			break
		}
		type kv struct{ k, v *Node }
		var kvs []kv
		for _, key := range v.MapKeys() {
			kvs = append(kvs, kv{FromGo(key), FromGo(v.MapIndex(key))})
		}
		sort.Slice(kvs, func(i, j int) bool { return kvs[i].k.String() < kvs[j].k.String() })
		for _, e := range kvs {
			n.Keys = append(n.Keys, e.k)
			n.Items = append(n.Items, e.v)
		}
	case k == KStruct:
		for i := 0; i < v.NumField(); i++ {
			f := v.Field(i)
			if !t.Fields[i].Exported {
				// read through a copy that is addressable
				cp := reflect.New(v.Type()).Elem()
				cp.Set(v)
				f = cp.Field(i)
				f = reflect.NewAt(f.Type(), unsafePointer(f)).Elem()
			}
			n.Items = append(n.Items, FromGo(f))
		}
	}
	return n
}

// FromJSON decodes text with encoding/json (optionally UseNumber) and converts the result.
func FromJSON(text string, useNumber bool) *Node {
	dec := json.NewDecoder(stringsNewReader(text))
	if useNumber {
		dec.UseNumber()
	}
	var x interface{}
	if err := dec.Decode(&x); err != nil {
		panic(err)
	}
	return FromGo(reflect.ValueOf(&x).Elem())
}
