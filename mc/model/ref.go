package model

import (
	"fmt"
	"math/big"
	"reflect"
	"regexp"
	"strconv"
	"strings"
)

// outcome sets
const (
	T  = 1
	Fa = 2
	E  = 4
)

func SetStr(s int) string {
	var p []string
	if s&T != 0 {
		p = append(p, "T")
	}
	if s&Fa != 0 {
		p = append(p, "F")
	}
	if s&E != 0 {
		p = append(p, "E")
	}
	return "{" + strings.Join(p, ",") + "}"
}
func B2S(b bool) int {
	if b {
		return T
	}
	return Fa
}
func Neg(s int) int {
	r := s & E
	if s&T != 0 {
		r |= Fa
	}
	if s&Fa != 0 {
		r |= T
	}
	return r
}

// ---------- expressions ----------
const (
	OpEq = iota
	OpNe
	OpIn
	OpNotIn
	OpEmpty
	OpNotEmpty
	OpMatches
	OpNotMatches
)

var disposition = map[int]bool{OpEq: false, OpNe: true, OpIn: false, OpNotIn: true, OpEmpty: true, OpNotEmpty: false, OpMatches: false, OpNotMatches: true}

type Match struct {
	Sel []string
	Op  int
	Lit string
	JP  bool // render the selector in JSON-pointer spelling (semantics unchanged)
	// Style of the literal: 0 backtick (double-quoted when a backtick or CR occurs), 1 double-quoted, 2 bare
	Style int
}

const (
	StyleBacktick = iota
	StyleQuoted
	StyleBare
)

type Not struct{ X any }
type Bin struct {
	Or   bool
	L, R any
}

const (
	BindDefault = iota
	BindIndex
	BindValue
	BindBoth
)

type Quant struct {
	All      bool
	Sel      []string
	Mode     int
	Idx, Val string // Default mode uses Val as the name
	Body     any
	JP       bool // render the collection selector in JSON-pointer spelling
}

// hook family (written in the idiom of the repository's own tests)
const (
	HookNone = iota
	HookIdentity
	HookUnwrap // if w, ok := v.Interface().(Wrapper); ok { return reflect.ValueOf(w.W) }
	HookConst  // return reflect.ValueOf(42)
	HookSwap   // a hook that transforms SCALARS: an int (kind Int, also behind an interface) 1 becomes 2 and 2 becomes 1, everything else is left alone
)

type Cfg struct {
	Tag     string // effective tag name ("bexpr" is the default)
	Unknown *Node
	Hook    int
}

func (c Cfg) String() string {
	u := "none"
	if c.Unknown != nil {
		u = c.Unknown.String()
	}
	return fmt.Sprintf("tag=%q unknown=%s hook=%d", c.Tag, u, c.Hook)
}

type binding struct {
	name string
	path []string
	val  *Node
}

type Ref struct {
	root *Node
	cfg  Cfg
	// statistics of the last Eval calls (for the non-triviality rule of the evidence)
	Resolved, NotPresent, ResolveErr, NotFound int
}

func NewRef(root *Node, cfg Cfg) *Ref { return &Ref{root: root, cfg: cfg} }

const (
	stOK = iota
	stNotFound
	stNotPresent
	stErr
)

func isIdentLike(s string) bool { return true }

// strip interfaces then pointers (pointerstructure loop order)
func strip(n *Node) (*Node, bool) {
	for n.T.K == KIface {
		if n.Nil {
			return nil, false
		}
		n = n.Items[0]
	}
	for n.T.K == KPtr {
		if n.Nil {
			return nil, false
		}
		n = n.Items[0]
	}
	return n, true
}

func weakInt(s string, bits int) (int64, bool) {
	if s == "" {
		s = "0"
	}
	i, err := strconv.ParseInt(s, 0, bits)
	return i, err == nil
}
func weakUint(s string, bits int) (uint64, bool) {
	if s == "" {
		s = "0"
	}
	i, err := strconv.ParseUint(s, 0, bits)
	return i, err == nil
}

var bitsOf = map[Kind]int{KInt: 64, KInt8: 8, KInt16: 16, KInt32: 32, KInt64: 64, KUint: 64, KUint8: 8, KUint16: 16, KUint32: 32, KUint64: 64}

// keyMatches: does map key node k equal the string part coerced to key type; ok=false => coercion error
func coerceKey(part string, kt *Type) (func(k *Node) bool, bool) {
	switch {
	case kt.K == KString:
		return func(k *Node) bool { return k.S == part }, true
	case kt.K == KIface:
		return func(k *Node) bool {
			d := k.Items[0]
			return !k.Nil && d.T.K == KString && !d.T.Named && d.S == part
		}, true
	case kt.K.isInt():
		i, ok := weakInt(part, bitsOf[kt.K])
		return func(k *Node) bool { return k.I == i }, ok
	case kt.K.isUint():
		u, ok := weakUint(part, bitsOf[kt.K])
		return func(k *Node) bool { return k.U == u }, ok
	case kt.K == KBool:
		b, err := strconv.ParseBool(part)
		if err != nil {
			if part != "" {
				return nil, false
			}
			b = false
		}
		return func(k *Node) bool { return k.B == b }, true
	}
	return nil, false
}

func (r *Ref) walk(parts []string) (*Node, int) {
	cur := r.root
	for _, part := range parts {
		c, ok := strip(cur)
		if !ok {
			return nil, stErr
		}
		cur = c
		switch cur.T.K {
		case KMap:
			match, ok := coerceKey(part, cur.T.Key)
			if !ok {
				return nil, stErr
			}
			found := -1
			for i, k := range cur.Keys {
				if match(k) {
					found = i
				}
			}
			if found < 0 {
				return nil, stNotFound
			}
			cur = cur.Items[found]
		case KSlice, KArray:
			i, ok := weakInt(part, 64)
			if !ok {
				return nil, stErr
			}
			if i < 0 || int(i) >= len(cur.Items) {
				return nil, stErr
			}
			cur = cur.Items[i]
		case KStruct:
			tagName := r.cfg.Tag
			if tagName == "" {
				tagName = "pointer"
			}
			var found *Node
			ignored := false
			fnd := false
			done := false
			for i, f := range cur.T.Fields {
				if !f.Exported {
					continue
				}
				ft := reflect.StructTag(f.Tag).Get(tagName)
				if ft != "" {
					if idx := strings.Index(ft, ","); idx != -1 {
						ft = ft[:idx]
					}
					if strings.Contains(ft, "|") {
						return nil, stErr
					}
					if ft == "-" {
						if f.Name == part {
							fnd, ignored = true, true
						}
						continue
					} else if ft == part {
						found, done = cur.Items[i], true
						break
					}
				} else if f.Name == part {
					found, fnd = cur.Items[i], true
				}
			}
			if !done {
				if !fnd {
					return nil, stNotFound
				}
				if ignored {
					return nil, stErr
				}
			}
			cur = found
		default:
			return nil, stErr
		}
		switch r.cfg.Hook {
		case HookUnwrap:
			d := cur
			if d.T.K == KIface && !d.Nil {
				d = d.Items[0]
			}
			if d.T.K == KStruct && d.T.Wrapper {
				w := d.Items[0] // field W interface{}
				if w.Nil {
					return nil, stErr // hook returned the Value of a nil interface
				}
				cur = w.Items[0]
			}
		case HookConst:
			cur = NInt(KInt, false, 42)
		case HookSwap:
			d := cur
			if d.T.K == KIface && !d.Nil {
				d = d.Items[0]
			}
			if d.T.K == KInt && !d.Nil && (d.I == 1 || d.I == 2) {
				cur = NInt(KInt, false, 3-d.I)
			}
		}
	}
	return cur, stOK
}

func dynKind(n *Node) Kind {
	if n.T.K == KIface {
		if n.Nil {
			return -1
		}
		return n.Items[0].T.K
	}
	return n.T.K
}

func (r *Ref) resolve(path []string, env []binding) (*Node, int) {
	p := path
	for i := len(env) - 1; i >= 0; i-- {
		b := env[i]
		if p[0] == b.name {
			if b.path == nil {
				if len(p) > 1 {
					return nil, stErr
				}
				return b.val, stOK
			}
			np := append([]string{}, b.path...)
			p = append(np, p[1:]...)
		}
	}
	n, st := r.walk(p)
	if st == stNotFound {
		r.NotFound++
		if r.cfg.Unknown != nil {
			return r.cfg.Unknown, stOK
		}
		if len(p) >= 2 {
			par, pst := r.walk(p[:len(p)-1])
			if pst == stOK && dynKind(par) == KMap {
				return nil, stNotPresent
			}
		}
		return nil, stErr
	}
	return n, st
}

// ----- literal coercion -----
const (
	cOK = iota
	cSyntax
	cRange
)

var boolLit = map[string]bool{"1": true, "t": true, "T": true, "TRUE": true, "true": true, "True": true, "0": false, "f": false, "F": false, "FALSE": false, "false": false, "False": false}

type scalarVal struct {
	k Kind
	b bool
	i *big.Int
	f float64
	s string
}

// compareLit: is node n (scalar kind k) equal to literal? returns (equal, status)
func compareLit(n *Node, lit string) (bool, int) {
	k := n.T.K
	switch {
	case k == KBool:
		b, ok := boolLit[lit]
		if !ok {
			return false, cSyntax
		}
		return b == n.B, cOK
	case k.isInt():
		z, ok := new(big.Int).SetString(lit, 0)
		if !ok {
			return false, cSyntax
		}
		if !z.IsInt64() {
			return false, cRange
		}
		return z.Int64() == n.I, cOK
	case k.isUint():
		if strings.HasPrefix(lit, "+") || strings.HasPrefix(lit, "-") {
			return false, cSyntax
		}
		z, ok := new(big.Int).SetString(lit, 0)
		if !ok {
			return false, cSyntax
		}
		if !z.IsUint64() {
			return false, cRange
		}
		return z.Uint64() == n.U, cOK
	case k == KFloat32:
		f, st := RefParseFloat(lit, 32)
		if st != cOK {
			return false, st
		}
		return float32(f) == float32(n.F), cOK
	case k == KFloat64:
		f, st := RefParseFloat(lit, 64)
		if st != cOK {
			return false, st
		}
		return f == n.F, cOK
	case k.isStr():
		return n.S == lit, cOK
	}
	panic("not scalar")
}

func primitive(k Kind) bool { return k.scalar() }

// top-level value prep: returns node after iface unwrap, json.Number narrowing, one ptr deref; invalid => nil
func prep(n *Node) (v *Node, invalid bool, err bool) {
	if n.T.K == KIface {
		if n.Nil {
			return nil, true, false
		}
		n = n.Items[0]
	}
	if n.T.K == KJSONNumber {
		if i, e := strconv.ParseInt(n.S, 10, 64); e == nil {
			n = NInt(KInt64, false, i)
		} else if f, e := strconv.ParseFloat(n.S, 64); e == nil {
			n = NFloat(KFloat64, false, f)
		} else {
			return nil, false, true
		}
	}
	if n.T.K == KPtr {
		if n.Nil {
			return nil, true, false
		}
		n = n.Items[0]
	}
	return n, false, false
}

func (r *Ref) match(m *Match, env []binding) int {
	n, st := r.resolve(m.Sel, env)
	switch st {
	case stErr:
		r.ResolveErr++
		return E
	case stNotPresent:
		r.NotPresent++
		return B2S(disposition[m.Op])
	}
	r.Resolved++
	v, invalid, err := prep(n)
	if err {
		return E
	}
	var res int
	switch m.Op {
	case OpEq, OpNe:
		res = r.eq(v, invalid, m.Lit)
	case OpIn, OpNotIn:
		res = r.in(v, invalid, m.Lit)
	case OpEmpty, OpNotEmpty:
		res = r.empty(v, invalid)
	case OpMatches, OpNotMatches:
		res = r.matches(v, invalid, m.Lit)
	}
	if m.Op%2 == 1 {
		return Neg(res)
	}
	return res
}

func (r *Ref) eq(v *Node, invalid bool, lit string) int {
	if invalid || !primitive(v.T.K) {
		return E
	}
	eq, st := compareLit(v, lit)
	if st != cOK {
		return E
	}
	return B2S(eq)
}

func (r *Ref) empty(v *Node, invalid bool) int {
	if invalid {
		return E | T // U1
	}
	switch k := v.T.K; {
	case k.isStr():
		return B2S(len(v.S) == 0)
	case k == KSlice, k == KArray, k == KMap:
		return B2S(len(v.Items) == 0)
	case k == KChan:
		return T
	case k == KPtr:
		// **T after one deref: reflect.Len allows pointer-to-array only
		if v.T.Elem.K == KArray {
			return B2S(v.T.Elem.Len == 0) | E
		}
		return E
	}
	return E // U2
}

func (r *Ref) matches(v *Node, invalid bool, lit string) int {
	if invalid {
		return E | Fa // U1
	}
	var data []byte
	switch k := v.T.K; {
	case k.isStr():
		data = []byte(v.S)
	case k == KSlice && v.T.Elem.K == KUint8 && !v.T.Elem.Named:
		for _, it := range v.Items {
			data = append(data, byte(it.U))
		}
	default:
		return E
	}
	re, err := regexp.Compile(lit)
	if err != nil {
		return E
	}
	return B2S(re.Match(data))
}

func derefT(t *Type) (*Type, int) {
	d := 0
	for t.K == KPtr {
		t = t.Elem
		d++
	}
	return t, d
}

func (r *Ref) in(v *Node, invalid bool, lit string) int {
	if invalid {
		return E
	}
	switch k := v.T.K; {
	case k == KMap:
		kt := v.T.Key
		if (kt.K == KString && !kt.Named) || kt.K == KIface {
			for _, key := range v.Keys {
				d := key
				if kt.K == KIface {
					if key.Nil {
						continue
					}
					d = key.Items[0]
					if d.T.K != KString || d.T.Named {
						continue
					}
				}
				if d.S == lit {
					return T
				}
			}
			return Fa
		}
		// U3
		res := E
		if kt.K.scalar() {
			for _, key := range v.Keys {
				if eq, st := compareLit(key, lit); st == cOK {
					if eq {
						return res | T
					}
				} else {
					return E
				}
			}
			if len(v.Keys) == 0 {
				return E | Fa | T // cannot tell whether literal coercible; be lenient
			}
			res |= Fa
		}
		return res
	case k == KSlice || k == KArray:
		et, depth := derefT(v.T.Elem)
		if et.K == KIface {
			// scan with two policies for odd elements: strict (E) and lenient (skip / deref)
			// policy 0: odd element (nil / multi-level pointer) is an error when reached;
			// policy 1: literal coerced by the element's kind first, then odd elements skipped / dereferenced;
			// policy 2: nil elements skipped before the literal is looked at, pointers fully dereferenced.
			scan := func(policy int) int {
				lenient := policy > 0
				for _, it := range v.Items {
					if it.Nil {
						if lenient {
							continue
						}
						return E
					}
					d := it.Items[0]
					dt, dd := derefT(d.T)
					if policy == 2 && dd >= 1 {
						x := d
						for x != nil && x.T.K == KPtr {
							if x.Nil {
								x = nil
								break
							}
							x = x.Items[0]
						}
						if x == nil {
							continue
						}
					}
					if !primitive(dt.K) {
						// coercion of literal for non-primitive kinds is raw string => ok; eqFn nil => E
						return E
					}
					// coercion status is determined by kind only
					probe := &Node{T: dt}
					_, st := compareLit(probe, lit)
					if st == cSyntax {
						continue
					}
					if st == cRange {
						return E
					}
					// Indirect one level
					tgt := d
					if dd >= 1 {
						odd := dd >= 2
						x := d
						for x.T.K == KPtr {
							if x.Nil {
								odd = true
								x = nil
								break
							}
							x = x.Items[0]
						}
						if odd {
							if !lenient {
								return E
							}
							if x == nil {
								continue
							}
						}
						tgt = x
					}
					if eq, _ := compareLit(tgt, lit); eq {
						return T
					}
				}
				return Fa
			}
			return scan(0) | scan(1) | scan(2)
		}
		if !primitive(et.K) {
			return E
		}
		probe := &Node{T: et}
		if _, st := compareLit(probe, lit); st != cOK {
			return E
		}
		scan := func(lenient bool) int {
			for _, it := range v.Items {
				x := it
				odd := depth >= 2
				for x.T.K == KPtr {
					if x.Nil {
						odd = true
						x = nil
						break
					}
					x = x.Items[0]
				}
				if odd {
					if !lenient {
						return E
					}
					if x == nil {
						continue
					}
				}
				if eq, _ := compareLit(x, lit); eq {
					return T
				}
			}
			return Fa
		}
		return scan(false) | scan(true)
	case k.isStr():
		return B2S(strings.Contains(v.S, lit))
	}
	return E
}

func (r *Ref) Eval(e any, env []binding) int {
	switch n := e.(type) {
	case *Match:
		return r.match(n, env)
	case *Not:
		return Neg(r.Eval(n.X, env))
	case *Bin:
		l := r.Eval(n.L, env)
		res := 0
		if l&E != 0 {
			res |= E
		}
		short, cont := Fa, T
		if n.Or {
			short, cont = T, Fa
		}
		if l&short != 0 {
			res |= short
		}
		if l&cont != 0 {
			res |= r.Eval(n.R, env)
		}
		return res
	case *Quant:
		return r.quant(n, env)
	}
	panic("bad expr")
}

func (r *Ref) quant(q *Quant, env []binding) int {
	n, st := r.resolve(q.Sel, env)
	switch st {
	case stErr:
		return E
	case stNotPresent:
		return B2S(q.All)
	}
	// reflect.ValueOf(val): interface unwrapped, no pointer deref
	if n.T.K == KIface {
		if n.Nil {
			return E
		}
		n = n.Items[0]
	}
	isMap := n.T.K == KMap
	if isMap && !(n.T.Key.K == KString && !n.T.Key.Named) {
		return E
	}
	if !isMap && n.T.K != KSlice && n.T.K != KArray {
		return E
	}
	if len(n.Items) == 0 {
		// empty S gives any=false / all=true whatever the binding looks like (the property says so without
		// exception; the former unspecified cell U6 was withdrawn)
		return B2S(q.All)
	}
	if q.Mode == BindBoth && q.Idx == q.Val {
		return E
	}
	elem := func(i int) int {
		inner := append([]binding{}, env...)
		if isMap {
			key := n.Keys[i].S
			kv := NStr(false, key)
			path := append(append([]string{}, q.Sel...), key)
			switch q.Mode {
			case BindDefault:
				inner = append(inner, binding{name: q.Val, val: kv})
			case BindIndex:
				inner = append(inner, binding{name: q.Idx, val: kv})
			case BindValue:
				inner = append(inner, binding{name: q.Val, path: path})
			case BindBoth:
				inner = append(inner, binding{name: q.Idx, val: kv}, binding{name: q.Val, path: path})
			}
		} else {
			iv := NInt(KInt, false, int64(i))
			path := append(append([]string{}, q.Sel...), strconv.Itoa(i))
			switch q.Mode {
			case BindDefault:
				inner = append(inner, binding{name: q.Val, path: path})
			case BindIndex:
				inner = append(inner, binding{name: q.Idx, val: iv})
			case BindValue:
				inner = append(inner, binding{name: q.Val, path: path})
			case BindBoth:
				inner = append(inner, binding{name: q.Idx, val: iv}, binding{name: q.Val, path: path})
			}
		}
		return r.Eval(q.Body, inner)
	}
	decisive := T
	if q.All {
		decisive = Fa
	}
	if isMap {
		// U5: unordered
		res, anyE, anyDec, allCont := 0, false, false, true
		for i := range n.Items {
			s := elem(i)
			if s&E != 0 {
				anyE = true
			}
			if s&decisive != 0 {
				anyDec = true
			}
			if s&^(Neg(decisive)&^E) != 0 { // may be something other than "continue"
				allCont = allCont && (s&(decisive|E) == 0)
			}
		}
		if anyE {
			res |= E
		}
		if anyDec {
			res |= decisive
		}
		// default reachable if every element may continue
		mayAllContinue := true
		for i := range n.Items {
			if elem(i)&(Neg(decisive)&^E) == 0 {
				mayAllContinue = false
			}
		}
		if mayAllContinue {
			res |= B2S(q.All)
		}
		_ = allCont
		return res
	}
	// ordered fold over sets
	res := 0
	reach := true
	for i := range n.Items {
		if !reach {
			break
		}
		s := elem(i)
		if s&E != 0 {
			res |= E
		}
		if s&decisive != 0 {
			res |= decisive
		}
		reach = s&(Neg(decisive)&^E) != 0
	}
	if reach {
		res |= B2S(q.All)
	}
	return res
}
