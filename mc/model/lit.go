package model

import (
	"math"
	"math/big"
	"strings"
)

// Independent reading of a float literal "in the field's own width": a small
// recogniser of Go's floating-point literal syntax (plus sign, inf/infinity/nan,
// plain integers) and math/big for the correctly rounded value. strconv is not used.

func isDec(c byte) bool { return c >= '0' && c <= '9' }
func isHex(c byte) bool {
	return isDec(c) || (c >= 'a' && c <= 'f') || (c >= 'A' && c <= 'F')
}

// digitsRun consumes digit { ["_"] digit } starting at i; lead allows one leading "_" (after a base prefix).
// It returns the new index and the number of digits consumed (0 = none / malformed).
func digitsRun(s string, i int, hex, lead bool) (int, int) {
	ok := isDec
	if hex {
		ok = isHex
	}
	n := 0
	if lead && i < len(s) && s[i] == '_' {
		if i+1 < len(s) && ok(s[i+1]) {
			i++
		} else {
			return i, 0
		}
	}
	for i < len(s) {
		if ok(s[i]) {
			i++
			n++
			continue
		}
		if s[i] == '_' && n > 0 && i+1 < len(s) && ok(s[i+1]) {
			i++
			continue
		}
		break
	}
	return i, n
}

// floatSyntax reports whether s (sign already stripped) is a decimal or hexadecimal float/integer literal.
func floatSyntax(s string) bool {
	i := 0
	hex := false
	if len(s) >= 2 && s[0] == '0' && (s[1] == 'x' || s[1] == 'X') {
		hex = true
		i = 2
	}
	var n1, n2 int
	i, n1 = digitsRun(s, i, hex, hex)
	if i < len(s) && s[i] == '.' {
		i++
		if i < len(s) && s[i] == '_' {
			return false
		}
		i, n2 = digitsRun(s, i, hex, false)
	}
	if n1+n2 == 0 {
		return false
	}
	expCh := "eE"
	if hex {
		expCh = "pP"
	}
	if i < len(s) && strings.IndexByte(expCh, s[i]) >= 0 {
		i++
		if i < len(s) && (s[i] == '+' || s[i] == '-') {
			i++
		}
		var ne int
		i, ne = digitsRun(s, i, false, false)
		if ne == 0 {
			return false
		}
	} else if hex {
		return false // hexadecimal mantissa requires a 'p' exponent
	}
	return i == len(s)
}

// RefParseFloat returns the float of the given width (32/64) nearest to the literal.
func RefParseFloat(lit string, bits int) (float64, int) {
	s := lit
	neg := false
	if s != "" && (s[0] == '+' || s[0] == '-') {
		neg = s[0] == '-'
		s = s[1:]
	}
	switch strings.ToLower(s) {
	case "inf", "infinity":
		if neg {
			return math.Inf(-1), cOK
		}
		return math.Inf(1), cOK
	case "nan":
		if s == lit {
			return math.NaN(), cOK
		}
		return 0, cSyntax
	}
	if !floatSyntax(s) {
		return 0, cSyntax
	}
	clean := strings.ReplaceAll(s, "_", "")
	// a leading "0" followed by digits is decimal for floats (not octal): strip leading zeros of the integer part
	if !(len(clean) >= 2 && (clean[1] == 'x' || clean[1] == 'X')) {
		j := 0
		for j+1 < len(clean) && clean[j] == '0' && isDec(clean[j+1]) {
			j++
		}
		clean = clean[j:]
	}
	x, _, err := new(big.Float).SetPrec(4096).Parse(clean, 0)
	if err != nil {
		return 0, cSyntax
	}
	if neg {
		x.Neg(x)
	}
	if bits == 32 {
		f, _ := x.Float32()
		if math.IsInf(float64(f), 0) {
			return float64(f), cRange
		}
		return float64(f), cOK
	}
	f, _ := x.Float64()
	if math.IsInf(f, 0) {
		return f, cRange
	}
	return f, cOK
}
