package model

import (
	"encoding/json"
	"fmt"
	"reflect"
	"sort"
	"strings"
	"unsafe"
)

// ---------- typed abstract documents ----------

type Kind int

const (
	KBool Kind = iota
	KInt
	KInt8
	KInt16
	KInt32
	KInt64
	KUint
	KUint8
	KUint16
	KUint32
	KUint64
	KFloat32
	KFloat64
	KString
	KJSONNumber
	KIface
	KPtr
	KSlice
	KArray
	KMap
	KStruct
	KChan
	KFunc
	KComplex
	KUintptr
)

var kindNames = map[Kind]string{KBool: "bool", KInt: "int", KInt8: "int8", KInt16: "int16", KInt32: "int32", KInt64: "int64", KUint: "uint", KUint8: "uint8",
	KUint16: "uint16", KUint32: "uint32", KUint64: "uint64", KFloat32: "float32", KFloat64: "float64", KString: "string", KJSONNumber: "json.Number",
	KIface: "any", KPtr: "ptr", KSlice: "slice", KArray: "array", KMap: "map", KStruct: "struct", KChan: "chan", KFunc: "func", KComplex: "complex128", KUintptr: "uintptr"}

type FieldT struct {
	Name     string
	Tag      string // full struct tag
	Exported bool
	Embedded bool
	T        *Type
}

type Type struct {
	K      Kind
	Named  bool
	Elem   *Type
	Key    *Type
	Fields []FieldT
	Len    int
	// Wrapper marks the harness's declared `type Wrapper struct{ W interface{} }`
	Wrapper bool
}

// Wrapper is the struct the unwrap hook recognises.
type Wrapper struct{ W interface{} }

var wrapperRT = reflect.TypeOf(Wrapper{})

func NWrapper(x *Node) *Node {
	return &Node{T: &Type{K: KStruct, Wrapper: true, Fields: []FieldT{{Name: "W", Exported: true, T: TAny}}}, Items: []*Node{NAny(x)}}
}

func (t *Type) String() string {
	n := kindNames[t.K]
	if t.Named {
		n = "My" + n
	}
	switch t.K {
	case KPtr:
		return "*" + t.Elem.String()
	case KSlice:
		return "[]" + t.Elem.String()
	case KArray:
		return fmt.Sprintf("[%d]%s", t.Len, t.Elem)
	case KMap:
		return "map[" + t.Key.String() + "]" + t.Elem.String()
	case KStruct:
		if t.Wrapper {
			return "Wrapper"
		}
		var fs []string
		for _, f := range t.Fields {
			s := f.Name + " " + f.T.String()
			if f.Embedded {
				s = "embedded " + s
			}
			if f.Tag != "" {
				s += " `" + f.Tag + "`"
			}
			fs = append(fs, s)
		}
		return "struct{" + strings.Join(fs, "; ") + "}"
	}
	return n
}

func (k Kind) isInt() bool   { return k >= KInt && k <= KInt64 }
func (k Kind) isUint() bool  { return k >= KUint && k <= KUint64 }
func (k Kind) isFloat() bool { return k == KFloat32 || k == KFloat64 }
func (k Kind) isStr() bool   { return k == KString || k == KJSONNumber }
func (k Kind) scalar() bool  { return k <= KJSONNumber }
func (k Kind) Scalar() bool  { return k.scalar() }

type Node struct {
	T     *Type
	B     bool
	I     int64
	U     uint64
	F     float64
	S     string
	Nil   bool
	Items []*Node // elems / map values / struct field values / ptr,iface target
	Keys  []*Node // map keys
}

type (
	MyBool    bool
	MyInt     int
	MyInt8    int8
	MyInt16   int16
	MyInt32   int32
	MyInt64   int64
	MyUint    uint
	MyUint8   uint8
	MyUint16  uint16
	MyUint32  uint32
	MyUint64  uint64
	MyFloat32 float32
	MyFloat64 float64
	MyString  string
)

var plainT = map[Kind]reflect.Type{KBool: reflect.TypeOf(false), KInt: reflect.TypeOf(int(0)), KInt8: reflect.TypeOf(int8(0)), KInt16: reflect.TypeOf(int16(0)),
	KInt32: reflect.TypeOf(int32(0)), KInt64: reflect.TypeOf(int64(0)), KUint: reflect.TypeOf(uint(0)), KUint8: reflect.TypeOf(uint8(0)), KUint16: reflect.TypeOf(uint16(0)),
	KUint32: reflect.TypeOf(uint32(0)), KUint64: reflect.TypeOf(uint64(0)), KFloat32: reflect.TypeOf(float32(0)), KFloat64: reflect.TypeOf(float64(0)),
	KString: reflect.TypeOf(""), KJSONNumber: reflect.TypeOf(json.Number("")), KChan: reflect.TypeOf(make(chan int)), KFunc: reflect.TypeOf(func() {}),
	KComplex: reflect.TypeOf(complex128(0)), KUintptr: reflect.TypeOf(uintptr(0))}
var namedT = map[Kind]reflect.Type{KBool: reflect.TypeOf(MyBool(false)), KInt: reflect.TypeOf(MyInt(0)), KInt8: reflect.TypeOf(MyInt8(0)), KInt16: reflect.TypeOf(MyInt16(0)),
	KInt32: reflect.TypeOf(MyInt32(0)), KInt64: reflect.TypeOf(MyInt64(0)), KUint: reflect.TypeOf(MyUint(0)), KUint8: reflect.TypeOf(MyUint8(0)), KUint16: reflect.TypeOf(MyUint16(0)),
	KUint32: reflect.TypeOf(MyUint32(0)), KUint64: reflect.TypeOf(MyUint64(0)), KFloat32: reflect.TypeOf(MyFloat32(0)), KFloat64: reflect.TypeOf(MyFloat64(0)),
	KString: reflect.TypeOf(MyString(""))}

var ifaceRT = reflect.TypeOf((*interface{})(nil)).Elem()

func (t *Type) RT() reflect.Type {
	switch t.K {
	case KIface:
		return ifaceRT
	case KPtr:
		return reflect.PointerTo(t.Elem.RT())
	case KSlice:
		return reflect.SliceOf(t.Elem.RT())
	case KArray:
		return reflect.ArrayOf(t.Len, t.Elem.RT())
	case KMap:
		return reflect.MapOf(t.Key.RT(), t.Elem.RT())
	case KStruct:
		if t.Wrapper {
			return wrapperRT
		}
		var fs []reflect.StructField
		for _, f := range t.Fields {
			sf := reflect.StructField{Name: f.Name, Type: f.T.RT(), Tag: reflect.StructTag(f.Tag), Anonymous: f.Embedded}
			if !f.Exported {
				sf.PkgPath = "verif/x"
			}
			fs = append(fs, sf)
		}
		return reflect.StructOf(fs)
	}
	if t.Named {
		return namedT[t.K]
	}
	return plainT[t.K]
}

// Build returns a reflect.Value of type n.T.RT()
func Build(n *Node) reflect.Value {
	rt := n.T.RT()
	v := reflect.New(rt).Elem()
	switch k := n.T.K; {
	case k == KBool:
		v.SetBool(n.B)
	case k.isInt():
		v.SetInt(n.I)
	case k.isUint() || k == KUintptr:
		v.SetUint(n.U)
	case k.isFloat():
		v.SetFloat(n.F)
	case k.isStr():
		v.SetString(n.S)
	case k == KComplex:
		v.SetComplex(complex(n.F, 1))
	case k == KChan:
		if !n.Nil {
			v.Set(reflect.MakeChan(rt, 1))
		}
	case k == KFunc:
		if !n.Nil {
			v.Set(reflect.ValueOf(func() {}))
		}
	case k == KIface:
		if !n.Nil {
			v.Set(Build(n.Items[0]))
		}
	case k == KPtr:
		if !n.Nil {
			p := reflect.New(rt.Elem())
			p.Elem().Set(Build(n.Items[0]))
			v.Set(p)
		}
	case k == KSlice:
		if !n.Nil {
			s := reflect.MakeSlice(rt, len(n.Items), len(n.Items))
			for i, it := range n.Items {
				s.Index(i).Set(Build(it))
			}
			v.Set(s)
		}
	case k == KArray:
		for i, it := range n.Items {
			v.Index(i).Set(Build(it))
		}
	case k == KMap:
		if !n.Nil {
			m := reflect.MakeMap(rt)
			for i, it := range n.Items {
				m.SetMapIndex(Build(n.Keys[i]), Build(it))
			}
			v.Set(m)
		}
	case k == KStruct:
		for i, it := range n.Items {
			f := v.Field(i)
			if !n.T.Fields[i].Exported {
				// unexported fields cannot be Set through reflect; write through the address
				reflect.NewAt(f.Type(), unsafe.Pointer(f.UnsafeAddr())).Elem().Set(Build(it))
				continue
			}
			f.Set(Build(it))
		}
	}
	return v
}

func (n *Node) String() string {
	switch k := n.T.K; {
	case k == KBool:
		return fmt.Sprintf("%s(%v)", n.T, n.B)
	case k.isInt():
		return fmt.Sprintf("%s(%d)", n.T, n.I)
	case k.isUint() || k == KUintptr:
		return fmt.Sprintf("%s(%d)", n.T, n.U)
	case k.isFloat() || k == KComplex:
		return fmt.Sprintf("%s(%v)", n.T, n.F)
	case k.isStr():
		return fmt.Sprintf("%s(%q)", n.T, n.S)
	case k == KChan || k == KFunc:
		return fmt.Sprintf("%s(nil=%v)", n.T, n.Nil)
	case k == KIface:
		if n.Nil {
			return "any(nil)"
		}
		return "any(" + n.Items[0].String() + ")"
	case k == KPtr:
		if n.Nil {
			return "(" + n.T.String() + ")(nil)"
		}
		return "&" + n.Items[0].String()
	case k == KSlice || k == KArray:
		if n.Nil {
			return n.T.String() + "(nil)"
		}
		var s []string
		for _, it := range n.Items {
			s = append(s, it.String())
		}
		return n.T.String() + "{" + strings.Join(s, ", ") + "}"
	case k == KMap:
		if n.Nil {
			return n.T.String() + "(nil)"
		}
		var s []string
		for i, it := range n.Items {
			s = append(s, n.Keys[i].String()+": "+it.String())
		}
		sort.Strings(s)
		return n.T.String() + "{" + strings.Join(s, ", ") + "}"
	case k == KStruct:
		var s []string
		for i, it := range n.Items {
			s = append(s, n.T.Fields[i].Name+": "+it.String())
		}
		return "struct{" + strings.Join(s, ", ") + "}"
	}
	return "?"
}

// ---- constructors ----
var (
	TAny = &Type{K: KIface}
	TStr = &Type{K: KString}
	TInt = &Type{K: KInt}
)

func Sc(k Kind, named bool) *Type                { return &Type{K: k, Named: named} }
func NBool(named bool, b bool) *Node             { return &Node{T: Sc(KBool, named), B: b} }
func NInt(k Kind, named bool, i int64) *Node     { return &Node{T: Sc(k, named), I: i} }
func NUint(k Kind, named bool, u uint64) *Node   { return &Node{T: Sc(k, named), U: u} }
func NFloat(k Kind, named bool, f float64) *Node { return &Node{T: Sc(k, named), F: f} }
func NStr(named bool, s string) *Node            { return &Node{T: Sc(KString, named), S: s} }
func NJSON(s string) *Node                       { return &Node{T: Sc(KJSONNumber, false), S: s} }
func NNilAny() *Node                             { return &Node{T: TAny, Nil: true} }
func NAny(x *Node) *Node {
	if x.T.K == KIface {
		return x
	}
	return &Node{T: TAny, Items: []*Node{x}}
}
func NPtr(x *Node) *Node    { return &Node{T: &Type{K: KPtr, Elem: x.T}, Items: []*Node{x}} }
func NNilPtr(t *Type) *Node { return &Node{T: &Type{K: KPtr, Elem: t}, Nil: true} }
func NSlice(elem *Type, items ...*Node) *Node {
	return &Node{T: &Type{K: KSlice, Elem: elem}, Items: conformAll(elem, items)}
}
func NArray(elem *Type, items ...*Node) *Node {
	return &Node{T: &Type{K: KArray, Elem: elem, Len: len(items)}, Items: conformAll(elem, items)}
}
func NMap(key, elem *Type, kv ...*Node) *Node {
	n := &Node{T: &Type{K: KMap, Key: key, Elem: elem}}
	for i := 0; i+1 < len(kv); i += 2 {
		n.Keys = append(n.Keys, conform(key, kv[i]))
		n.Items = append(n.Items, conform(elem, kv[i+1]))
	}
	return n
}

type F struct {
	Name, Tag string
	Unexp     bool
	Embedded  bool // an embedded (anonymous) exported struct field: for lookups it is an ordinary field called Name; Go promotes its fields
	V         *Node
}

func NStruct(fs ...F) *Node {
	n := &Node{T: &Type{K: KStruct}}
	for _, f := range fs {
		n.T.Fields = append(n.T.Fields, FieldT{Name: f.Name, Tag: f.Tag, Exported: !f.Unexp, Embedded: f.Embedded, T: f.V.T})
		n.Items = append(n.Items, f.V)
	}
	return n
}

// conform wraps x into interface if the slot type is interface
func conform(t *Type, x *Node) *Node {
	if t.K == KIface {
		return NAny(x)
	}
	if t.String() != x.T.String() {
		panic("type mismatch " + t.String() + " vs " + x.T.String())
	}
	return x
}
func conformAll(t *Type, xs []*Node) []*Node {
	out := make([]*Node, len(xs))
	for i, x := range xs {
		out[i] = conform(t, x)
	}
	return out
}
