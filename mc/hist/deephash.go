// Package hist: canonical deep hashing of arbitrary Go value graphs (through pointers,
// interfaces, unexported fields) used by the history explorer E4.
package hist

import (
	"crypto/sha1"
	"encoding/binary"
	"fmt"
	"hash"
	"math"
	"reflect"
	"regexp"
	"runtime"
	"sort"
	"unsafe"
)

var (
	regexpT = reflect.TypeOf((*regexp.Regexp)(nil))
	rtypeI  = reflect.TypeOf((*reflect.Type)(nil)).Elem()
)

type walker struct {
	h       hash.Hash
	visited map[unsafe.Pointer]int
	nodes   int
}

func (w *walker) str(s string) {
	var b [4]byte
	binary.LittleEndian.PutUint32(b[:], uint32(len(s)))
	w.h.Write(b[:])
	w.h.Write([]byte(s))
}
func (w *walker) u64(u uint64) {
	var b [8]byte
	binary.LittleEndian.PutUint64(b[:], u)
	w.h.Write(b[:])
}

// clearRO returns v without the read-only flag (v must be addressable if it carries it).
func clearRO(v reflect.Value) reflect.Value {
	if v.CanInterface() {
		return v
	}
	return reflect.NewAt(v.Type(), unsafe.Pointer(v.UnsafeAddr())).Elem()
}

func (w *walker) walk(v reflect.Value) {
	w.nodes++
	if !v.IsValid() {
		w.str("<invalid>")
		return
	}
	t := v.Type()
	if t == regexpT {
		if v.IsNil() {
			w.str("regexp:nil")
		} else {
			w.str("regexp:" + v.Interface().(*regexp.Regexp).String())
		}
		return
	}
	if t.Implements(rtypeI) && t.Kind() == reflect.Ptr {
		if v.IsNil() {
			w.str("type:nil")
		} else {
			w.str("type:" + v.Interface().(reflect.Type).String())
		}
		return
	}
	w.str(t.String())
	switch v.Kind() {
	case reflect.Bool:
		if v.Bool() {
			w.u64(1)
		} else {
			w.u64(0)
		}
	case reflect.Int, reflect.Int8, reflect.Int16, reflect.Int32, reflect.Int64:
		w.u64(uint64(v.Int()))
	case reflect.Uint, reflect.Uint8, reflect.Uint16, reflect.Uint32, reflect.Uint64, reflect.Uintptr:
		w.u64(v.Uint())
	case reflect.Float32, reflect.Float64:
		w.u64(math.Float64bits(v.Float()))
	case reflect.Complex64, reflect.Complex128:
		c := v.Complex()
		w.u64(math.Float64bits(real(c)))
		w.u64(math.Float64bits(imag(c)))
	case reflect.String:
		w.str(v.String())
	case reflect.Interface:
		if v.IsNil() {
			w.str("nil")
			return
		}
		if t == rtypeI {
			w.str("type:" + v.Interface().(reflect.Type).String())
			return
		}
		w.walk(v.Elem())
	case reflect.Ptr:
		if v.IsNil() {
			w.str("nil")
			return
		}
		p := unsafe.Pointer(v.Pointer())
		if id, ok := w.visited[p]; ok {
			w.str(fmt.Sprintf("ref#%d", id))
			return
		}
		w.visited[p] = len(w.visited)
		w.walk(v.Elem())
	case reflect.Slice:
		if v.IsNil() {
			w.str("nil")
			return
		}
		w.u64(uint64(v.Len()))
		for i := 0; i < v.Len(); i++ {
			w.walk(v.Index(i))
		}
	case reflect.Array:
		for i := 0; i < v.Len(); i++ {
			w.walk(v.Index(i))
		}
	case reflect.Map:
		if v.IsNil() {
			w.str("nil")
			return
		}
		keys := v.MapKeys()
		type kh struct {
			sum string
			k   reflect.Value
		}
		var ks []kh
		for _, k := range keys {
			sub := &walker{h: sha1.New(), visited: map[unsafe.Pointer]int{}}
			sub.walk(k)
			ks = append(ks, kh{string(sub.h.Sum(nil)), k})
		}
		sort.Slice(ks, func(i, j int) bool { return ks[i].sum < ks[j].sum })
		w.u64(uint64(len(ks)))
		for _, e := range ks {
			w.str(e.sum)
			w.walk(v.MapIndex(e.k))
		}
	case reflect.Struct:
		if !v.CanAddr() {
			tmp := reflect.New(t).Elem()
			tmp.Set(v)
			v = tmp
		}
		for i := 0; i < v.NumField(); i++ {
			w.str(t.Field(i).Name)
			w.walk(clearRO(v.Field(i)))
		}
	case reflect.Func:
		if v.IsNil() {
			w.str("func:nil")
		} else if f := runtime.FuncForPC(v.Pointer()); f != nil {
			w.str("func:" + f.Name())
		} else {
			w.str("func:?")
		}
	case reflect.Chan, reflect.UnsafePointer:
		if v.Pointer() == 0 {
			w.str("nil")
		} else {
			w.str("non-nil")
		}
	}
}

// Hash returns a canonical digest of everything reachable from the given values.
func Hash(vals ...interface{}) (digest string, nodes int) {
	w := &walker{h: sha1.New(), visited: map[unsafe.Pointer]int{}}
	for _, x := range vals {
		v := reflect.ValueOf(x)
		// a pointer passed at top level is followed like any other
		w.walk(v)
	}
	return fmt.Sprintf("%x", w.h.Sum(nil)[:10]), w.nodes
}
