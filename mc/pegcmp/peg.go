package pegcmp

import (
	"fmt"
	"strings"
	"unicode"
	"unicode/utf8"
)

// generic node for both sides
type N struct {
	Kind    string // choice seq action labeled and not andCode notCode opt star plus lit class any ref
	Kids    []*N
	Label   string
	Name    string // ruleRef name
	Val     string // literal value / class raw text
	IgnCase bool
	Code    string // code block (peg) or on-func name (go)
	Class   *classSpec
	Pos     string
}

type classSpec struct {
	chars    []rune
	ranges   []rune
	classes  []string
	inverted bool
	ignCase  bool
}

func (c *classSpec) match(r rune) bool {
	if c.ignCase {
		r = unicode.ToLower(r)
	}
	in := false
	for _, x := range c.chars {
		if x == r {
			in = true
		}
	}
	for i := 0; i+1 < len(c.ranges); i += 2 {
		if r >= c.ranges[i] && r <= c.ranges[i+1] {
			in = true
		}
	}
	for _, cl := range c.classes {
		rt := unicode.Categories[cl]
		if rt == nil {
			rt = unicode.Properties[cl]
		}
		if rt == nil {
			rt = unicode.Scripts[cl]
		}
		if rt != nil && unicode.Is(rt, r) {
			in = true
		}
	}
	return in != c.inverted
}

type Rule struct {
	Name, Display string
	Expr          *N
}

type pegParser struct {
	s   string
	pos int
}

func (p *pegParser) errf(f string, a ...any) {
	line := 1 + strings.Count(p.s[:p.pos], "\n")
	panic(fmt.Sprintf("peg:%d: %s", line, fmt.Sprintf(f, a...)))
}
func (p *pegParser) ws() {
	for p.pos < len(p.s) {
		switch {
		case strings.HasPrefix(p.s[p.pos:], "//"):
			for p.pos < len(p.s) && p.s[p.pos] != '\n' {
				p.pos++
			}
		case strings.HasPrefix(p.s[p.pos:], "/*"):
			i := strings.Index(p.s[p.pos:], "*/")
			p.pos += i + 2
		case strings.ContainsRune(" \t\r\n", rune(p.s[p.pos])):
			p.pos++
		default:
			return
		}
	}
}
func isIdStart(c byte) bool { return c == '_' || (c >= 'a' && c <= 'z') || (c >= 'A' && c <= 'Z') }
func isIdChar(c byte) bool  { return isIdStart(c) || (c >= '0' && c <= '9') }
func (p *pegParser) ident() string {
	st := p.pos
	if p.pos < len(p.s) && isIdStart(p.s[p.pos]) {
		for p.pos < len(p.s) && isIdChar(p.s[p.pos]) {
			p.pos++
		}
	}
	return p.s[st:p.pos]
}

// code block with balanced braces, aware of strings, runes, comments
func (p *pegParser) codeBlock() string {
	if p.s[p.pos] != '{' {
		p.errf("expected {")
	}
	depth := 0
	st := p.pos
	for p.pos < len(p.s) {
		c := p.s[p.pos]
		switch {
		case c == '{':
			depth++
			p.pos++
		case c == '}':
			depth--
			p.pos++
			if depth == 0 {
				return p.s[st+1 : p.pos-1]
			}
		case c == '"' || c == '\'':
			q := c
			p.pos++
			for p.s[p.pos] != q {
				if p.s[p.pos] == '\\' {
					p.pos++
				}
				p.pos++
			}
			p.pos++
		case c == '`':
			p.pos++
			for p.s[p.pos] != '`' {
				p.pos++
			}
			p.pos++
		case strings.HasPrefix(p.s[p.pos:], "//"):
			for p.s[p.pos] != '\n' {
				p.pos++
			}
		case strings.HasPrefix(p.s[p.pos:], "/*"):
			p.pos += strings.Index(p.s[p.pos:], "*/") + 2
		default:
			p.pos++
		}
	}
	p.errf("unterminated code block")
	return ""
}

func (p *pegParser) stringLit() (string, bool) { // returns unescaped value
	q := p.s[p.pos]
	p.pos++
	var sb strings.Builder
	for p.s[p.pos] != q {
		if p.s[p.pos] == '\\' && q != '`' {
			p.pos++
			sb.WriteRune(p.escape(q))
			continue
		}
		r, w := utf8.DecodeRuneInString(p.s[p.pos:])
		sb.WriteRune(r)
		p.pos += w
	}
	p.pos++
	ign := false
	if p.pos < len(p.s) && p.s[p.pos] == 'i' && (p.pos+1 >= len(p.s) || !isIdChar(p.s[p.pos+1])) {
		ign = true
		p.pos++
	}
	return sb.String(), ign
}

func (p *pegParser) escape(q byte) rune {
	c := p.s[p.pos]
	p.pos++
	switch c {
	case 'a':
		return '\a'
	case 'b':
		return '\b'
	case 'f':
		return '\f'
	case 'n':
		return '\n'
	case 'r':
		return '\r'
	case 't':
		return '\t'
	case 'v':
		return '\v'
	case '\\', '"', '\'', ']', '[', '-', '^':
		return rune(c)
	case 'x', 'u', 'U':
		n := map[byte]int{'x': 2, 'u': 4, 'U': 8}[c]
		var v rune
		fmt.Sscanf(p.s[p.pos:p.pos+n], "%x", &v)
		p.pos += n
		return v
	}
	p.errf("unknown escape \\%c", c)
	return 0
}

func (p *pegParser) charClass() *N {
	st := p.pos
	p.pos++ // [
	cs := &classSpec{}
	if p.s[p.pos] == '^' {
		cs.inverted = true
		p.pos++
	}
	type item struct {
		r     rune
		class string
	}
	var items []item
	for p.s[p.pos] != ']' {
		if p.s[p.pos] == '\\' {
			if p.s[p.pos+1] == 'p' {
				p.pos += 2
				if p.s[p.pos] == '{' {
					e := strings.IndexByte(p.s[p.pos:], '}')
					items = append(items, item{class: p.s[p.pos+1 : p.pos+e]})
					p.pos += e + 1
				} else {
					items = append(items, item{class: p.s[p.pos : p.pos+1]})
					p.pos++
				}
				continue
			}
			p.pos++
			items = append(items, item{r: p.escape(']')})
			continue
		}
		r, w := utf8.DecodeRuneInString(p.s[p.pos:])
		p.pos += w
		// range?
		if p.s[p.pos] == '-' && p.s[p.pos+1] != ']' {
			save := p.pos
			p.pos++
			var hi rune
			if p.s[p.pos] == '\\' && p.s[p.pos+1] != 'p' {
				p.pos++
				hi = p.escape(']')
			} else if p.s[p.pos] != '\\' {
				var w2 int
				hi, w2 = utf8.DecodeRuneInString(p.s[p.pos:])
				p.pos += w2
			} else {
				p.pos = save
				items = append(items, item{r: r})
				continue
			}
			cs.ranges = append(cs.ranges, r, hi)
			continue
		}
		items = append(items, item{r: r})
	}
	p.pos++
	if p.pos < len(p.s) && p.s[p.pos] == 'i' && (p.pos+1 >= len(p.s) || !isIdChar(p.s[p.pos+1])) {
		cs.ignCase = true
		p.pos++
	}
	for _, it := range items {
		if it.class != "" {
			cs.classes = append(cs.classes, it.class)
		} else {
			cs.chars = append(cs.chars, it.r)
		}
	}
	return &N{Kind: "class", Val: p.s[st:p.pos], Class: cs, IgnCase: cs.ignCase}
}

// lookahead: does a rule definition start here?  Ident [string] "<-"
func (p *pegParser) atRuleStart() bool {
	save := p.pos
	defer func() { p.pos = save }()
	if p.ident() == "" {
		return false
	}
	p.ws()
	if p.pos < len(p.s) && p.s[p.pos] == '"' {
		p.stringLit()
		p.ws()
	}
	return strings.HasPrefix(p.s[p.pos:], "<-") || strings.HasPrefix(p.s[p.pos:], "←")
}

func (p *pegParser) choice() *N {
	var alts []*N
	for {
		alts = append(alts, p.action())
		p.ws()
		if p.pos < len(p.s) && p.s[p.pos] == '/' {
			p.pos++
			continue
		}
		break
	}
	if len(alts) == 1 {
		return alts[0]
	}
	return &N{Kind: "choice", Kids: alts}
}

func (p *pegParser) action() *N {
	var items []*N
	for {
		p.ws()
		if p.pos >= len(p.s) || strings.ContainsRune("/){", rune(p.s[p.pos])) || p.atRuleStart() {
			break
		}
		items = append(items, p.labeled())
	}
	var e *N
	if len(items) == 1 {
		e = items[0]
	} else {
		e = &N{Kind: "seq", Kids: items}
	}
	p.ws()
	if p.pos < len(p.s) && p.s[p.pos] == '{' {
		code := p.codeBlock()
		return &N{Kind: "action", Kids: []*N{e}, Code: code}
	}
	return e
}

func (p *pegParser) labeled() *N {
	save := p.pos
	id := p.ident()
	if id != "" {
		p.ws()
		if p.pos < len(p.s) && p.s[p.pos] == ':' {
			p.pos++
			p.ws()
			return &N{Kind: "labeled", Label: id, Kids: []*N{p.prefixed()}}
		}
	}
	p.pos = save
	return p.prefixed()
}

func (p *pegParser) prefixed() *N {
	c := p.s[p.pos]
	if c == '&' || c == '!' {
		p.pos++
		p.ws()
		kind := map[byte]string{'&': "and", '!': "not"}[c]
		if p.s[p.pos] == '{' {
			return &N{Kind: kind + "Code", Code: p.codeBlock()}
		}
		return &N{Kind: kind, Kids: []*N{p.suffixed()}}
	}
	return p.suffixed()
}

func (p *pegParser) suffixed() *N {
	e := p.primary()
	p.ws()
	if p.pos < len(p.s) {
		switch p.s[p.pos] {
		case '?':
			p.pos++
			return &N{Kind: "opt", Kids: []*N{e}}
		case '*':
			p.pos++
			return &N{Kind: "star", Kids: []*N{e}}
		case '+':
			p.pos++
			return &N{Kind: "plus", Kids: []*N{e}}
		}
	}
	return e
}

func (p *pegParser) primary() *N {
	c := p.s[p.pos]
	switch {
	case c == '"' || c == '\'' || c == '`':
		v, ign := p.stringLit()
		return &N{Kind: "lit", Val: v, IgnCase: ign}
	case c == '[':
		return p.charClass()
	case c == '.':
		p.pos++
		return &N{Kind: "any"}
	case c == '(':
		p.pos++
		e := p.choice()
		p.ws()
		if p.s[p.pos] != ')' {
			p.errf("expected )")
		}
		p.pos++
		return e
	case isIdStart(c):
		return &N{Kind: "ref", Name: p.ident()}
	}
	p.errf("unexpected %q", c)
	return nil
}

func ParsePeg(src string) (header string, rules []*Rule) {
	p := &pegParser{s: src}
	p.ws()
	if p.s[p.pos] == '{' {
		header = p.codeBlock()
	}
	for {
		p.ws()
		if p.pos >= len(p.s) {
			return
		}
		r := &Rule{Name: p.ident()}
		if r.Name == "" {
			p.errf("expected rule name")
		}
		p.ws()
		if p.s[p.pos] == '"' {
			r.Display, _ = p.stringLit()
			p.ws()
		}
		if !strings.HasPrefix(p.s[p.pos:], "<-") {
			p.errf("expected <-")
		}
		p.pos += 2
		r.Expr = p.choice()
		rules = append(rules, r)
	}
}
