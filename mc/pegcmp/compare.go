package pegcmp

import (
	"fmt"
	"os"
	"reflect"
	"strings"
	"unicode"
)

type Problem struct {
	Path string
	Msg  string
}

type Stats struct {
	Rules, Pairs, Edges, RuneChecks, Actions int
	Notes                                    []string
	Samples                                  []string
}

type cmpState struct {
	st       Stats
	problems []Problem
}

func (s *cmpState) problem(path, f string, a ...any) {
	s.problems = append(s.problems, Problem{Path: path, Msg: fmt.Sprintf(f, a...)})
}

func labelsInScope(n *N) []string {
	var out []string
	var walk func(x *N)
	walk = func(x *N) {
		switch x.Kind {
		case "labeled":
			out = append(out, x.Label)
		case "seq":
			for _, k := range x.Kids {
				walk(k)
			}
		}
	}
	walk(n)
	return out
}

func (s *cmpState) cmp(path string, p, g *N, gs *GoSide, scope []string) {
	s.st.Pairs++
	if len(s.st.Samples) < 4 && (p.Kind == "lit" || p.Kind == "class") {
		s.st.Samples = append(s.st.Samples, fmt.Sprintf("%s: %s %q", path, p.Kind, p.Val))
	}
	if p.Kind != g.Kind {
		s.problem(path, "node kind %s in grammar.peg vs %s in grammar.go", p.Kind, g.Kind)
		return
	}
	switch p.Kind {
	case "lit":
		if p.Val != g.Val || p.IgnCase != g.IgnCase {
			s.problem(path, "literal %q/ignoreCase=%v vs %q/ignoreCase=%v", p.Val, p.IgnCase, g.Val, g.IgnCase)
		}
	case "ref":
		if p.Name != g.Name {
			s.problem(path, "rule reference %s vs %s", p.Name, g.Name)
		}
	case "labeled":
		if p.Label != g.Label {
			s.problem(path, "label %s vs %s", p.Label, g.Label)
		}
	case "class":
		if p.Val != g.Val {
			s.st.Notes = append(s.st.Notes, fmt.Sprintf("%s: class display text %q vs %q (not judged)", path, p.Val, g.Val))
		}
		bad := 0
		for r := rune(0); r <= 0x10FFFF; r++ {
			s.st.RuneChecks++
			if p.Class.match(r) != g.Class.match(r) {
				if bad < 2 {
					s.problem(path, "character class %s differs on %U (grammar.peg matches=%v)", p.Val, r, p.Class.match(r))
				}
				bad++
			}
		}
	case "action", "andCode", "notCode":
		s.st.Actions++
		sc := scope
		if p.Kind == "action" {
			sc = labelsInScope(p.Kids[0])
		}
		body, params, args, err := gs.action(g.Code)
		if err != nil {
			s.problem(path, "%v", err)
			break
		}
		want, err := normPegCode(p.Code, p.Kind != "action")
		if err != nil {
			s.problem(path, "code block in grammar.peg does not parse: %v", err)
			break
		}
		if want != body {
			s.problem(path, "action code differs\n--- grammar.peg\n%s--- grammar.go (%s)\n%s", want, g.Code, body)
		}
		if !reflect.DeepEqual(params, sc) && !(len(params) == 0 && len(sc) == 0) {
			s.problem(path, "parameters %v vs labels in scope %v", params, sc)
		}
		if !reflect.DeepEqual(params, args) && !(len(params) == 0 && len(args) == 0) {
			s.problem(path, "wrapper passes %v to parameters %v", args, params)
		}
	}
	if len(p.Kids) != len(g.Kids) {
		s.problem(path, "%d children in grammar.peg vs %d in grammar.go", len(p.Kids), len(g.Kids))
		return
	}
	sc := scope
	if p.Kind == "action" {
		sc = labelsInScope(p.Kids[0])
	} else if p.Kind == "seq" && scope == nil {
		sc = labelsInScope(p)
	}
	for i := range p.Kids {
		s.st.Edges++
		s.cmp(fmt.Sprintf("%s/%s[%d]", path, p.Kind, i), p.Kids[i], g.Kids[i], gs, sc)
	}
}

// Compare walks grammar.peg and the rule table / action functions of grammar.go in lockstep.
func Compare(repo string) (st Stats, problems []Problem) {
	s := &cmpState{}
	defer func() {
		if r := recover(); r != nil {
			s.problem("(reader)", "cannot read the grammar pair: %v", r)
			st, problems = s.st, s.problems
		}
	}()
	src, err := os.ReadFile(repo + "/grammar/grammar.peg")
	if err != nil {
		s.problem("(reader)", "%v", err)
		return s.st, s.problems
	}
	_, prules := ParsePeg(string(src))
	gs := LoadGo(repo + "/grammar/grammar.go")
	s.st.Rules = len(prules)
	if len(prules) != len(gs.rules) {
		s.problem("(rules)", "%d rules in grammar.peg vs %d in grammar.go", len(prules), len(gs.rules))
	}
	for i := 0; i < len(prules) && i < len(gs.rules); i++ {
		p, g := prules[i], gs.rules[i]
		if p.Name != g.Name || p.Display != g.Display {
			s.problem(p.Name, "rule %d: %s %q vs %s %q", i, p.Name, p.Display, g.Name, g.Display)
		}
		s.cmp(p.Name, p.Expr, g.Expr, gs, nil)
	}
	for name := range gs.funcs {
		if (strings.HasPrefix(name, "on") || strings.HasPrefix(name, "callon")) && !gs.used[name] {
			s.problem(name, "action function %s is not referenced by the rule table", name)
		}
	}
	return s.st, s.problems
}

// RuntimeClass is the run-time content of one character-class matcher (from the overlay accessor).
type RuntimeClass struct {
	Val        string
	Chars      []rune
	Ranges     []rune
	Tables     []*unicode.RangeTable
	IgnoreCase bool
	Inverted   bool
}

func (c *RuntimeClass) match(r rune) bool {
	if c.IgnoreCase {
		r = unicode.ToLower(r)
	}
	in := false
	for _, x := range c.Chars {
		if x == r {
			in = true
		}
	}
	for i := 0; i+1 < len(c.Ranges); i += 2 {
		if r >= c.Ranges[i] && r <= c.Ranges[i+1] {
			in = true
		}
	}
	for _, t := range c.Tables {
		if t != nil && unicode.Is(t, r) {
			in = true
		}
	}
	return in != c.Inverted
}

// CompareRuntimeClasses pairs, in pre-order, every character class of grammar.peg with the class matcher that exists in
// the rule table at RUN TIME and compares membership of every rune.
func CompareRuntimeClasses(repo string, rt []RuntimeClass) (checks int, problems []Problem) {
	defer func() {
		if r := recover(); r != nil {
			problems = append(problems, Problem{Path: "(reader)", Msg: fmt.Sprint("cannot read grammar.peg: ", r)})
		}
	}()
	src, err := os.ReadFile(repo + "/grammar/grammar.peg")
	if err != nil {
		return 0, []Problem{{Path: "(reader)", Msg: err.Error()}}
	}
	_, prules := ParsePeg(string(src))
	type pc struct {
		path string
		n    *N
	}
	var pcs []pc
	var walk func(path string, n *N)
	walk = func(path string, n *N) {
		if n.Kind == "class" {
			pcs = append(pcs, pc{path, n})
		}
		for i, k := range n.Kids {
			walk(fmt.Sprintf("%s/%s[%d]", path, n.Kind, i), k)
		}
	}
	for _, r := range prules {
		walk(r.Name, r.Expr)
	}
	if len(pcs) != len(rt) {
		problems = append(problems, Problem{Path: "(classes)", Msg: fmt.Sprintf("%d character classes in grammar.peg vs %d class matchers in the run-time rule table", len(pcs), len(rt))})
	}
	for i := 0; i < len(pcs) && i < len(rt); i++ {
		bad := 0
		for r := rune(0); r <= 0x10FFFF; r++ {
			checks++
			if pcs[i].n.Class.match(r) != rt[i].match(r) {
				if bad < 2 {
					problems = append(problems, Problem{Path: pcs[i].path, Msg: fmt.Sprintf("run-time class matcher %s (table text %q) differs from grammar.peg on %U (grammar.peg matches=%v)", pcs[i].n.Val, rt[i].Val, r, pcs[i].n.Class.match(r))})
				}
				bad++
			}
		}
	}
	return checks, problems
}
