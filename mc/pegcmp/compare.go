package pegcmp

import (
	"fmt"
	"os"
	"reflect"
	"strings"
)

type Problem struct {
	Path string
	Msg  string
}

type Stats struct {
	Rules, Pairs, Edges, RuneChecks, Actions int
	Notes                                    []string
	Samples                                  []string
}

type cmpState struct {
	st       Stats
	problems []Problem
}

func (s *cmpState) problem(path, f string, a ...any) {
	s.problems = append(s.problems, Problem{Path: path, Msg: fmt.Sprintf(f, a...)})
}

func labelsInScope(n *N) []string {
	var out []string
	var walk func(x *N)
	walk = func(x *N) {
		switch x.Kind {
		case "labeled":
			out = append(out, x.Label)
		case "seq":
			for _, k := range x.Kids {
				walk(k)
			}
		}
	}
	walk(n)
	return out
}

func (s *cmpState) cmp(path string, p, g *N, gs *GoSide, scope []string) {
	s.st.Pairs++
	if len(s.st.Samples) < 4 && (p.Kind == "lit" || p.Kind == "class") {
		s.st.Samples = append(s.st.Samples, fmt.Sprintf("%s: %s %q", path, p.Kind, p.Val))
	}
	if p.Kind != g.Kind {
		s.problem(path, "node kind %s in grammar.peg vs %s in grammar.go", p.Kind, g.Kind)
		return
	}
	switch p.Kind {
	case "lit":
		if p.Val != g.Val || p.IgnCase != g.IgnCase {
			s.problem(path, "literal %q/ignoreCase=%v vs %q/ignoreCase=%v", p.Val, p.IgnCase, g.Val, g.IgnCase)
		}
	case "ref":
		if p.Name != g.Name {
			s.problem(path, "rule reference %s vs %s", p.Name, g.Name)
		}
	case "labeled":
		if p.Label != g.Label {
			s.problem(path, "label %s vs %s", p.Label, g.Label)
		}
	case "class":
		if p.Val != g.Val {
			s.st.Notes = append(s.st.Notes, fmt.Sprintf("%s: class display text %q vs %q (not judged)", path, p.Val, g.Val))
		}
		bad := 0
		for r := rune(0); r <= 0x10FFFF; r++ {
			s.st.RuneChecks++
			if p.Class.match(r) != g.Class.match(r) {
				if bad < 2 {
					s.problem(path, "character class %s differs on %U (grammar.peg matches=%v)", p.Val, r, p.Class.match(r))
				}
				bad++
			}
		}
	case "action", "andCode", "notCode":
		s.st.Actions++
		sc := scope
		if p.Kind == "action" {
			sc = labelsInScope(p.Kids[0])
		}
		body, params, args, err := gs.action(g.Code)
		if err != nil {
			s.problem(path, "%v", err)
			break
		}
		want, err := normPegCode(p.Code, p.Kind != "action")
		if err != nil {
			s.problem(path, "code block in grammar.peg does not parse: %v", err)
			break
		}
		if want != body {
			s.problem(path, "action code differs\n--- grammar.peg\n%s--- grammar.go (%s)\n%s", want, g.Code, body)
		}
		if !reflect.DeepEqual(params, sc) && !(len(params) == 0 && len(sc) == 0) {
			s.problem(path, "parameters %v vs labels in scope %v", params, sc)
		}
		if !reflect.DeepEqual(params, args) && !(len(params) == 0 && len(args) == 0) {
			s.problem(path, "wrapper passes %v to parameters %v", args, params)
		}
	}
	if len(p.Kids) != len(g.Kids) {
		s.problem(path, "%d children in grammar.peg vs %d in grammar.go", len(p.Kids), len(g.Kids))
		return
	}
	sc := scope
	if p.Kind == "action" {
		sc = labelsInScope(p.Kids[0])
	} else if p.Kind == "seq" && scope == nil {
		sc = labelsInScope(p)
	}
	for i := range p.Kids {
		s.st.Edges++
		s.cmp(fmt.Sprintf("%s/%s[%d]", path, p.Kind, i), p.Kids[i], g.Kids[i], gs, sc)
	}
}

// Compare walks grammar.peg and the rule table / action functions of grammar.go in lockstep.
func Compare(repo string) (st Stats, problems []Problem) {
	s := &cmpState{}
	defer func() {
		if r := recover(); r != nil {
			s.problem("(reader)", "cannot read the grammar pair: %v", r)
			st, problems = s.st, s.problems
		}
	}()
	src, err := os.ReadFile(repo + "/grammar/grammar.peg")
	if err != nil {
		s.problem("(reader)", "%v", err)
		return s.st, s.problems
	}
	_, prules := ParsePeg(string(src))
	gs := LoadGo(repo + "/grammar/grammar.go")
	s.st.Rules = len(prules)
	if len(prules) != len(gs.rules) {
		s.problem("(rules)", "%d rules in grammar.peg vs %d in grammar.go", len(prules), len(gs.rules))
	}
	for i := 0; i < len(prules) && i < len(gs.rules); i++ {
		p, g := prules[i], gs.rules[i]
		if p.Name != g.Name || p.Display != g.Display {
			s.problem(p.Name, "rule %d: %s %q vs %s %q", i, p.Name, p.Display, g.Name, g.Display)
		}
		s.cmp(p.Name, p.Expr, g.Expr, gs, nil)
	}
	for name := range gs.funcs {
		if (strings.HasPrefix(name, "on") || strings.HasPrefix(name, "callon")) && !gs.used[name] {
			s.problem(name, "action function %s is not referenced by the rule table", name)
		}
	}
	return s.st, s.problems
}
