package pegcmp

import (
	"bytes"
	"fmt"
	"go/ast"
	"go/parser"
	"go/printer"
	"go/token"
	"strconv"
	"strings"
)

type GoSide struct {
	fset  *token.FileSet
	file  *ast.File
	rules []*Rule
	funcs map[string]*ast.FuncDecl
	used  map[string]bool
}

func unq(e ast.Expr) string {
	b := e.(*ast.BasicLit)
	s, err := strconv.Unquote(b.Value)
	if err != nil {
		panic(err)
	}
	return s
}

func kv(cl *ast.CompositeLit) map[string]ast.Expr {
	m := map[string]ast.Expr{}
	for _, e := range cl.Elts {
		k := e.(*ast.KeyValueExpr)
		m[k.Key.(*ast.Ident).Name] = k.Value
	}
	return m
}

func litOf(e ast.Expr) (*ast.CompositeLit, string) {
	if u, ok := e.(*ast.UnaryExpr); ok {
		e = u.X
	}
	cl := e.(*ast.CompositeLit)
	name := ""
	if id, ok := cl.Type.(*ast.Ident); ok {
		name = id.Name
	}
	return cl, name
}

func runeOf(e ast.Expr) rune {
	b := e.(*ast.BasicLit)
	r, _, _, err := strconv.UnquoteChar(b.Value[1:len(b.Value)-1], '\'')
	if err != nil {
		panic(err)
	}
	return r
}

func runName(e ast.Expr) string {
	// (*parser).callonX
	return e.(*ast.SelectorExpr).Sel.Name
}

func (g *GoSide) conv(e ast.Expr) *N {
	cl, name := litOf(e)
	f := kv(cl)
	kids := func(key string) []*N {
		var out []*N
		for _, x := range f[key].(*ast.CompositeLit).Elts {
			out = append(out, g.conv(x))
		}
		return out
	}
	one := func() []*N { return []*N{g.conv(f["expr"])} }
	switch name {
	case "choiceExpr":
		return &N{Kind: "choice", Kids: kids("alternatives")}
	case "seqExpr":
		return &N{Kind: "seq", Kids: kids("exprs")}
	case "actionExpr":
		return &N{Kind: "action", Kids: one(), Code: runName(f["run"])}
	case "labeledExpr":
		return &N{Kind: "labeled", Label: unq(f["label"]), Kids: one()}
	case "andExpr":
		return &N{Kind: "and", Kids: one()}
	case "notExpr":
		return &N{Kind: "not", Kids: one()}
	case "andCodeExpr":
		return &N{Kind: "andCode", Code: runName(f["run"])}
	case "notCodeExpr":
		return &N{Kind: "notCode", Code: runName(f["run"])}
	case "zeroOrOneExpr":
		return &N{Kind: "opt", Kids: one()}
	case "zeroOrMoreExpr":
		return &N{Kind: "star", Kids: one()}
	case "oneOrMoreExpr":
		return &N{Kind: "plus", Kids: one()}
	case "ruleRefExpr":
		return &N{Kind: "ref", Name: unq(f["name"])}
	case "anyMatcher":
		return &N{Kind: "any"}
	case "litMatcher":
		ic := f["ignoreCase"].(*ast.Ident).Name == "true"
		n := &N{Kind: "lit", Val: unq(f["val"]), IgnCase: ic}
		want := strconv.Quote(n.Val)
		if ic {
			want += "i"
		}
		if unq(f["want"]) != want {
			fmt.Printf("NOTE: display-only want=%q differs from derived %q\n", unq(f["want"]), want)
		}
		return n
	case "charClassMatcher":
		cs := &classSpec{}
		if v, ok := f["chars"]; ok {
			for _, x := range v.(*ast.CompositeLit).Elts {
				cs.chars = append(cs.chars, runeOf(x))
			}
		}
		if v, ok := f["ranges"]; ok {
			for _, x := range v.(*ast.CompositeLit).Elts {
				cs.ranges = append(cs.ranges, runeOf(x))
			}
		}
		if v, ok := f["classes"]; ok {
			for _, x := range v.(*ast.CompositeLit).Elts {
				cs.classes = append(cs.classes, unq(x.(*ast.CallExpr).Args[0]))
			}
		}
		if v, ok := f["basicLatinChars"]; ok {
			_ = v
			fmt.Println("NOTE: basicLatinChars present (not modelled in prototype)")
		}
		cs.ignCase = f["ignoreCase"].(*ast.Ident).Name == "true"
		cs.inverted = f["inverted"].(*ast.Ident).Name == "true"
		return &N{Kind: "class", Val: unq(f["val"]), Class: cs, IgnCase: cs.ignCase}
	}
	panic("unknown table node " + name)
}

func LoadGo(path string) *GoSide {
	g := &GoSide{fset: token.NewFileSet(), funcs: map[string]*ast.FuncDecl{}, used: map[string]bool{}}
	f, err := parser.ParseFile(g.fset, path, nil, 0)
	if err != nil {
		panic(err)
	}
	g.file = f
	for _, d := range f.Decls {
		switch d := d.(type) {
		case *ast.FuncDecl:
			g.funcs[d.Name.Name] = d
		case *ast.GenDecl:
			if d.Tok != token.VAR {
				continue
			}
			for _, s := range d.Specs {
				vs := s.(*ast.ValueSpec)
				if vs.Names[0].Name != "g" {
					continue
				}
				cl, _ := litOf(vs.Values[0])
				rules := kv(cl)["rules"].(*ast.CompositeLit)
				for _, r := range rules.Elts {
					rf := kv(r.(*ast.CompositeLit))
					rule := &Rule{Name: unq(rf["name"]), Expr: g.conv(rf["expr"])}
					if dn, ok := rf["displayName"]; ok {
						d, _ := strconv.Unquote(unq(dn))
						rule.Display = d
					}
					g.rules = append(g.rules, rule)
				}
			}
		}
	}
	return g
}

func normCode(fset *token.FileSet, body *ast.BlockStmt) string {
	var buf bytes.Buffer
	for _, st := range body.List {
		printer.Fprint(&buf, fset, st)
		buf.WriteString("\n")
	}
	return buf.String()
}

func normPegCode(code string, pred bool) (string, error) {
	ret := "(any, error)"
	if pred {
		ret = "(bool, error)"
	}
	src := "package x\nfunc _() " + ret + " {\n" + code + "\n}\n"
	fset := token.NewFileSet()
	f, err := parser.ParseFile(fset, "", src, 0)
	if err != nil {
		return "", err
	}
	return normCode(fset, f.Decls[0].(*ast.FuncDecl).Body), nil
}

// action: returns (on-func body normalized, params, callon arg labels)
func (g *GoSide) action(callon string) (body string, params []string, args []string, err error) {
	c := g.funcs[callon]
	if c == nil {
		return "", nil, nil, fmt.Errorf("missing %s", callon)
	}
	g.used[callon] = true
	// last statement: return p.cur.onX(stack["a"], ...)
	if len(c.Body.List) != 3 {
		return "", nil, nil, fmt.Errorf("%s: unexpected wrapper shape", callon)
	}
	ret := c.Body.List[2].(*ast.ReturnStmt).Results[0].(*ast.CallExpr)
	on := ret.Fun.(*ast.SelectorExpr).Sel.Name
	if on != strings.Replace(callon, "callon", "on", 1) {
		return "", nil, nil, fmt.Errorf("%s calls %s", callon, on)
	}
	for _, a := range ret.Args {
		args = append(args, unq(a.(*ast.IndexExpr).Index))
	}
	o := g.funcs[on]
	if o == nil {
		return "", nil, nil, fmt.Errorf("missing %s", on)
	}
	g.used[on] = true
	for _, fl := range o.Type.Params.List {
		for _, n := range fl.Names {
			params = append(params, n.Name)
		}
	}
	return normCode(g.fset, o.Body), params, args, nil
}
