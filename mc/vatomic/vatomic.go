// Package vatomic replaces "sync/atomic" in the generated overlay: every operation is a
// scheduling point of the explorer (never a race candidate) followed by the real operation.
package vatomic

import (
	"sync/atomic"
	"unsafe"

	"verifmc/vrt"
)

func pt(p unsafe.Pointer, op string) { vrt.AtomicPoint(p, "atomic."+op) }

func LoadInt32(p *int32) int32     { pt(unsafe.Pointer(p), "LoadInt32"); return atomic.LoadInt32(p) }
func LoadInt64(p *int64) int64     { pt(unsafe.Pointer(p), "LoadInt64"); return atomic.LoadInt64(p) }
func LoadUint32(p *uint32) uint32  { pt(unsafe.Pointer(p), "LoadUint32"); return atomic.LoadUint32(p) }
func LoadUint64(p *uint64) uint64  { pt(unsafe.Pointer(p), "LoadUint64"); return atomic.LoadUint64(p) }
func StoreInt32(p *int32, v int32) { pt(unsafe.Pointer(p), "StoreInt32"); atomic.StoreInt32(p, v) }
func StoreInt64(p *int64, v int64) { pt(unsafe.Pointer(p), "StoreInt64"); atomic.StoreInt64(p, v) }
func StoreUint32(p *uint32, v uint32) {
	pt(unsafe.Pointer(p), "StoreUint32")
	atomic.StoreUint32(p, v)
}
func StoreUint64(p *uint64, v uint64) {
	pt(unsafe.Pointer(p), "StoreUint64")
	atomic.StoreUint64(p, v)
}
func AddInt32(p *int32, d int32) int32 {
	pt(unsafe.Pointer(p), "AddInt32")
	return atomic.AddInt32(p, d)
}
func AddInt64(p *int64, d int64) int64 {
	pt(unsafe.Pointer(p), "AddInt64")
	return atomic.AddInt64(p, d)
}
func AddUint32(p *uint32, d uint32) uint32 {
	pt(unsafe.Pointer(p), "AddUint32")
	return atomic.AddUint32(p, d)
}
func AddUint64(p *uint64, d uint64) uint64 {
	pt(unsafe.Pointer(p), "AddUint64")
	return atomic.AddUint64(p, d)
}
func CompareAndSwapInt32(p *int32, o, n int32) bool {
	pt(unsafe.Pointer(p), "CompareAndSwapInt32")
	return atomic.CompareAndSwapInt32(p, o, n)
}
func CompareAndSwapInt64(p *int64, o, n int64) bool {
	pt(unsafe.Pointer(p), "CompareAndSwapInt64")
	return atomic.CompareAndSwapInt64(p, o, n)
}
func CompareAndSwapUint32(p *uint32, o, n uint32) bool {
	pt(unsafe.Pointer(p), "CompareAndSwapUint32")
	return atomic.CompareAndSwapUint32(p, o, n)
}
func CompareAndSwapUint64(p *uint64, o, n uint64) bool {
	pt(unsafe.Pointer(p), "CompareAndSwapUint64")
	return atomic.CompareAndSwapUint64(p, o, n)
}
func SwapInt32(p *int32, n int32) int32 {
	pt(unsafe.Pointer(p), "SwapInt32")
	return atomic.SwapInt32(p, n)
}
func SwapInt64(p *int64, n int64) int64 {
	pt(unsafe.Pointer(p), "SwapInt64")
	return atomic.SwapInt64(p, n)
}
func LoadPointer(p *unsafe.Pointer) unsafe.Pointer {
	pt(unsafe.Pointer(p), "LoadPointer")
	return atomic.LoadPointer(p)
}
func StorePointer(p *unsafe.Pointer, v unsafe.Pointer) {
	pt(unsafe.Pointer(p), "StorePointer")
	atomic.StorePointer(p, v)
}
func CompareAndSwapPointer(p *unsafe.Pointer, o, n unsafe.Pointer) bool {
	pt(unsafe.Pointer(p), "CompareAndSwapPointer")
	return atomic.CompareAndSwapPointer(p, o, n)
}

type Value struct{ v atomic.Value }

func (x *Value) Load() any   { pt(unsafe.Pointer(x), "Value.Load"); return x.v.Load() }
func (x *Value) Store(v any) { pt(unsafe.Pointer(x), "Value.Store"); x.v.Store(v) }
func (x *Value) Swap(v any) any {
	pt(unsafe.Pointer(x), "Value.Swap")
	return x.v.Swap(v)
}
func (x *Value) CompareAndSwap(o, n any) bool {
	pt(unsafe.Pointer(x), "Value.CompareAndSwap")
	return x.v.CompareAndSwap(o, n)
}

type Bool struct{ v atomic.Bool }

func (x *Bool) Load() bool   { pt(unsafe.Pointer(x), "Bool.Load"); return x.v.Load() }
func (x *Bool) Store(v bool) { pt(unsafe.Pointer(x), "Bool.Store"); x.v.Store(v) }
func (x *Bool) Swap(v bool) bool {
	pt(unsafe.Pointer(x), "Bool.Swap")
	return x.v.Swap(v)
}
func (x *Bool) CompareAndSwap(o, n bool) bool {
	pt(unsafe.Pointer(x), "Bool.CompareAndSwap")
	return x.v.CompareAndSwap(o, n)
}

type Int32 struct{ v atomic.Int32 }

func (x *Int32) Load() int32       { pt(unsafe.Pointer(x), "Int32.Load"); return x.v.Load() }
func (x *Int32) Store(v int32)     { pt(unsafe.Pointer(x), "Int32.Store"); x.v.Store(v) }
func (x *Int32) Add(d int32) int32 { pt(unsafe.Pointer(x), "Int32.Add"); return x.v.Add(d) }
func (x *Int32) CompareAndSwap(o, n int32) bool {
	pt(unsafe.Pointer(x), "Int32.CompareAndSwap")
	return x.v.CompareAndSwap(o, n)
}

type Int64 struct{ v atomic.Int64 }

func (x *Int64) Load() int64       { pt(unsafe.Pointer(x), "Int64.Load"); return x.v.Load() }
func (x *Int64) Store(v int64)     { pt(unsafe.Pointer(x), "Int64.Store"); x.v.Store(v) }
func (x *Int64) Add(d int64) int64 { pt(unsafe.Pointer(x), "Int64.Add"); return x.v.Add(d) }
func (x *Int64) CompareAndSwap(o, n int64) bool {
	pt(unsafe.Pointer(x), "Int64.CompareAndSwap")
	return x.v.CompareAndSwap(o, n)
}

type Uint32 struct{ v atomic.Uint32 }

func (x *Uint32) Load() uint32        { pt(unsafe.Pointer(x), "Uint32.Load"); return x.v.Load() }
func (x *Uint32) Store(v uint32)      { pt(unsafe.Pointer(x), "Uint32.Store"); x.v.Store(v) }
func (x *Uint32) Add(d uint32) uint32 { pt(unsafe.Pointer(x), "Uint32.Add"); return x.v.Add(d) }
func (x *Uint32) CompareAndSwap(o, n uint32) bool {
	pt(unsafe.Pointer(x), "Uint32.CompareAndSwap")
	return x.v.CompareAndSwap(o, n)
}

type Uint64 struct{ v atomic.Uint64 }

func (x *Uint64) Load() uint64        { pt(unsafe.Pointer(x), "Uint64.Load"); return x.v.Load() }
func (x *Uint64) Store(v uint64)      { pt(unsafe.Pointer(x), "Uint64.Store"); x.v.Store(v) }
func (x *Uint64) Add(d uint64) uint64 { pt(unsafe.Pointer(x), "Uint64.Add"); return x.v.Add(d) }
func (x *Uint64) CompareAndSwap(o, n uint64) bool {
	pt(unsafe.Pointer(x), "Uint64.CompareAndSwap")
	return x.v.CompareAndSwap(o, n)
}

type Pointer[T any] struct{ v atomic.Pointer[T] }

func (x *Pointer[T]) Load() *T   { pt(unsafe.Pointer(x), "Pointer.Load"); return x.v.Load() }
func (x *Pointer[T]) Store(v *T) { pt(unsafe.Pointer(x), "Pointer.Store"); x.v.Store(v) }
func (x *Pointer[T]) Swap(v *T) *T {
	pt(unsafe.Pointer(x), "Pointer.Swap")
	return x.v.Swap(v)
}
func (x *Pointer[T]) CompareAndSwap(o, n *T) bool {
	pt(unsafe.Pointer(x), "Pointer.CompareAndSwap")
	return x.v.CompareAndSwap(o, n)
}
