// Package vrt is the runtime behind the generated overlay: map-order seam (E5),
// shared-access hooks and cooperative scheduler (E3). With no explorer active
// every hook is a pass-through.
package vrt

import (
	"fmt"
	"reflect"
	"sort"
)

// Chooser records a sequence of environment choices; a run replays prefix and
// then takes choice 0 at every later point.
type Chooser struct {
	prefix  []int
	Choices []int
	Arity   []int
	Sites   []string
}

func (c *Chooser) Choose(n int, site string) int {
	i := len(c.Choices)
	ch := 0
	if i < len(c.prefix) {
		ch = c.prefix[i]
		if ch >= n {
			panic(fmt.Sprintf("replay divergence at choice point %d (%s): choice %d of %d", i, site, ch, n))
		}
	}
	c.Choices = append(c.Choices, ch)
	c.Arity = append(c.Arity, n)
	c.Sites = append(c.Sites, site)
	return ch
}

// ExploreChoices runs f under every sequence of choices (depth-first, default choice 0).
func ExploreChoices(f func(c *Chooser)) (executions int) {
	var rec func(prefix []int)
	rec = func(prefix []int) {
		c := &Chooser{prefix: prefix}
		f(c)
		executions++
		for i := len(prefix); i < len(c.Choices); i++ {
			for alt := 1; alt < c.Arity[i]; alt++ {
				rec(append(append([]int{}, c.Choices[:i]...), alt))
			}
		}
	}
	rec(nil)
	return
}

// RunChoices replays exactly one recorded sequence.
func RunChoices(prefix []int, f func(c *Chooser)) *Chooser {
	c := &Chooser{prefix: prefix}
	f(c)
	return c
}

// Env is the active environment chooser for the map-order seam (nil = runtime order).
var Env *Chooser

// SeamHits counts calls of the seam (to prove the seam is reached).
var SeamHits int

func factorial(n int) int {
	f := 1
	for i := 2; i <= n; i++ {
		f *= i
	}
	return f
}

// nthPermutation returns the k-th permutation (lexicographic by Lehmer code) of 0..n-1.
func nthPermutation(n, k int) []int {
	idx := make([]int, n)
	for i := range idx {
		idx[i] = i
	}
	out := make([]int, 0, n)
	for i := n; i >= 1; i-- {
		f := factorial(i - 1)
		j := k / f
		k %= f
		out = append(out, idx[j])
		idx = append(idx[:j], idx[j+1:]...)
	}
	return out
}

// MapKeys is the seam for reflect.Value.MapKeys: under an explorer the environment
// answers with any permutation of the (canonically sorted) keys.
func MapKeys(v reflect.Value, site string) []reflect.Value {
	keys := v.MapKeys()
	SeamHits++
	if Env == nil || len(keys) < 2 {
		return keys
	}
	if len(keys) > 7 {
		return keys
	}
	sort.Slice(keys, func(i, j int) bool { return fmt.Sprint(keys[i].Interface()) < fmt.Sprint(keys[j].Interface()) })
	k := Env.Choose(factorial(len(keys)), site)
	perm := nthPermutation(len(keys), k)
	out := make([]reflect.Value, len(keys))
	for i, p := range perm {
		out[i] = keys[p]
	}
	return out
}

// MapIter mimics reflect.MapIter over an explorer-chosen key order.
type MapIter struct {
	m    reflect.Value
	keys []reflect.Value
	i    int
}

// MapRange is the seam for reflect.Value.MapRange.
func MapRange(v reflect.Value, site string) *MapIter {
	return &MapIter{m: v, keys: MapKeys(v, site), i: -1}
}

func (it *MapIter) Next() bool {
	for {
		it.i++
		if it.i >= len(it.keys) {
			return false
		}
		if it.m.MapIndex(it.keys[it.i]).IsValid() {
			return true
		}
	}
}
func (it *MapIter) Key() reflect.Value   { return it.keys[it.i] }
func (it *MapIter) Value() reflect.Value { return it.m.MapIndex(it.keys[it.i]) }
func (it *MapIter) Reset(v reflect.Value) {
	it.m, it.keys, it.i = v, MapKeys(v, "reset"), -1
}

// Keys is the seam for `for k, v := range m` over a Go map.
func Keys[K comparable, V any](m map[K]V, site string) []K {
	rk := MapKeys(reflect.ValueOf(m), site)
	out := make([]K, len(rk))
	for i, k := range rk {
		out[i] = k.Interface().(K)
	}
	return out
}

// ParseSteps counts the entries of (*parser).parseExpr in the instrumented build: a count of parser work that does not depend
// on what the parser itself counts, and that covers every parser instance of the process.
var ParseSteps uint64

func ParseStep() { ParseSteps++ }
