package vrt

import (
	"fmt"
	"unsafe"
)

type OpKind int

const (
	OpStart OpKind = iota
	OpRead
	OpWrite
	OpLock
	OpUnlock
	OpRLock
	OpRUnlock
)

func (k OpKind) String() string {
	return [...]string{"start", "R", "W", "lock", "unlock", "rlock", "runlock"}[k]
}

type Op struct {
	Kind OpKind
	Addr uintptr
	Site string
	Mu   *Mutex
}

type thread struct {
	id      int
	wake    chan struct{}
	pending Op
	done    bool
	panicv  any
}

type Sched struct {
	threads []*thread
	cur     *thread
	yield   chan struct{} // running thread -> scheduler
	// DFS
	prefix  []int
	Choices []int
	Points  []Point
	Trace   []string
	Races   []string
	Dead    bool
	log     map[uintptr][]access
}

type Point struct {
	Enabled        []int // thread ids in canonical order
	RunningEnabled bool
}

var S *Sched // active scheduler (nil = pass-through)

// Hot = sites that are scheduling points. Other hooked accesses are only logged.
var Hot = map[string]bool{}

type access struct {
	tid   int
	write bool
	site  string
}

// Promote scans the access log of one execution: every address touched by >=2 threads with >=1 write
// makes all its sites hot. Returns the number of newly promoted sites.
func (s *Sched) Promote() int {
	n := 0
	for _, accs := range s.log {
		tids := map[int]bool{}
		w := false
		for _, a := range accs {
			tids[a.tid] = true
			w = w || a.write
		}
		if len(tids) >= 2 && w {
			for _, a := range accs {
				if !Hot[a.site] {
					Hot[a.site] = true
					n++
				}
			}
		}
	}
	return n
}

// ---- hooks called by instrumented code ----

func R[T any](p *T, site string) *T {
	if S != nil && S.cur != nil {
		a := uintptr(unsafe.Pointer(p))
		S.log[a] = append(S.log[a], access{S.cur.id, false, site})
		if Hot[site] {
			S.park(Op{Kind: OpRead, Addr: a, Site: site})
		}
	}
	return p
}
func W[T any](p *T, site string) *T {
	if S != nil && S.cur != nil {
		a := uintptr(unsafe.Pointer(p))
		S.log[a] = append(S.log[a], access{S.cur.id, true, site})
		if Hot[site] {
			S.park(Op{Kind: OpWrite, Addr: a, Site: site})
		}
	}
	return p
}

// ---- sync shim ----
type Mutex struct {
	holder *thread
	locked bool // pass-through mode flag
}

func (m *Mutex) Lock() {
	if S != nil && S.cur != nil {
		S.park(Op{Kind: OpLock, Mu: m})
		return
	}
	m.locked = true
}
func (m *Mutex) Unlock() {
	if S != nil && S.cur != nil {
		S.park(Op{Kind: OpUnlock, Mu: m})
		return
	}
	m.locked = false
}

// ---- scheduler ----

func (s *Sched) park(op Op) {
	t := s.cur
	t.pending = op
	s.yield <- struct{}{}
	<-t.wake
}

func (s *Sched) enabled(t *thread) bool {
	if t.done {
		return false
	}
	if t.pending.Kind == OpLock && t.pending.Mu.holder != nil {
		return false
	}
	return true
}

// Run executes bodies under the schedule given by prefix (then default choice 0).
func Run(prefix []int, bodies []func()) *Sched {
	s := &Sched{yield: make(chan struct{}), prefix: prefix, log: map[uintptr][]access{}}
	S = s
	defer func() { S = nil }()
	for i, b := range bodies {
		t := &thread{id: i, wake: make(chan struct{}), pending: Op{Kind: OpStart}}
		s.threads = append(s.threads, t)
		go func(t *thread, b func()) {
			<-t.wake
			defer func() {
				if r := recover(); r != nil {
					t.panicv = r
				}
				t.done = true
				s.yield <- struct{}{}
			}()
			b()
		}(t, b)
	}
	var last *thread
	for {
		// race check among pending plain accesses of live threads
		for i, a := range s.threads {
			for _, b := range s.threads[i+1:] {
				if a.done || b.done {
					continue
				}
				pa, pb := a.pending, b.pending
				plainA := pa.Kind == OpRead || pa.Kind == OpWrite
				plainB := pb.Kind == OpRead || pb.Kind == OpWrite
				if plainA && plainB && pa.Addr == pb.Addr && (pa.Kind == OpWrite || pb.Kind == OpWrite) {
					s.Races = append(s.Races, fmt.Sprintf("T%d %s@%s || T%d %s@%s", a.id, pa.Kind, pa.Site, b.id, pb.Kind, pb.Site))
				}
			}
		}
		var en []int
		runEn := last != nil && s.enabled(last)
		if runEn {
			en = append(en, last.id)
		}
		for _, t := range s.threads {
			if s.enabled(t) && !(runEn && t == last) {
				en = append(en, t.id)
			}
		}
		if len(en) == 0 {
			for _, t := range s.threads {
				if !t.done {
					s.Dead = true
				}
			}
			return s
		}
		c := 0
		if len(s.Choices) < len(s.prefix) {
			c = s.prefix[len(s.Choices)]
			if c >= len(en) {
				panic("replay divergence")
			}
		}
		s.Points = append(s.Points, Point{Enabled: en, RunningEnabled: runEn})
		s.Choices = append(s.Choices, c)
		t := s.threads[en[c]]
		// apply sync effect
		switch t.pending.Kind {
		case OpLock:
			t.pending.Mu.holder = t
		case OpUnlock:
			t.pending.Mu.holder = nil
		}
		s.Trace = append(s.Trace, fmt.Sprintf("T%d:%s@%s", t.id, t.pending.Kind, t.pending.Site))
		s.cur = t
		last = t
		t.wake <- struct{}{}
		<-s.yield
		s.cur = nil
	}
}

// Explore does preemption-bounded DFS; visit is called per execution.
func Explore(bound int, bodies func() []func(), visit func(s *Sched)) (execs int) {
	var rec func(prefix []int)
	rec = func(prefix []int) {
		s := Run(prefix, bodies())
		execs++
		visit(s)
		// preemptions before i
		pre := 0
		costs := make([]int, len(s.Points))
		for i, p := range s.Points {
			costs[i] = pre
			if p.RunningEnabled && s.Choices[i] != 0 {
				pre++
			}
		}
		for i := len(prefix); i < len(s.Points); i++ {
			p := s.Points[i]
			cost := costs[i]
			if p.RunningEnabled {
				cost++
			}
			if bound >= 0 && cost > bound {
				continue
			}
			for alt := 1; alt < len(p.Enabled); alt++ {
				np := append(append([]int{}, s.Choices[:i]...), alt)
				rec(np)
			}
		}
	}
	rec(nil)
	return
}

