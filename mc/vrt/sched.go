package vrt

import (
	"fmt"
	"sync"
	"unsafe"
)

// ---------------------------------------------------------------------------
// Cooperative scheduler for the schedule explorer E3.
//
// Instrumented code calls R/W before every hooked shared-memory access and the
// vsync/vatomic shims before every synchronisation operation. While an
// exploration is active exactly one "thread" (a goroutine started by Run) runs at
// a time; at every visible operation of a HOT site the thread parks and the
// scheduler decides who moves next. Outside an exploration every hook is a
// pass-through.
// ---------------------------------------------------------------------------

type OpKind int

const (
	OpStart OpKind = iota
	OpRead
	OpWrite
	OpLock
	OpUnlock
	OpRLock
	OpRUnlock
	OpAtomic
)

func (k OpKind) String() string {
	return [...]string{"start", "R", "W", "lock", "unlock", "rlock", "runlock", "atomic"}[k]
}

type Op struct {
	Kind OpKind
	Addr uintptr
	Site string
	Mu   *Mutex
	RW   *RWMutex
}

type thread struct {
	id      int
	wake    chan struct{}
	pending Op
	done    bool
	panicv  any
}

type Point struct {
	Enabled        []int // thread ids in canonical order: the running thread first if still enabled, then ascending ids
	RunningEnabled bool
}

type access struct {
	tid   int
	write bool
	site  string
}

type Race struct {
	Desc string
	Addr uintptr
}

type Sched struct {
	threads []*thread
	cur     *thread
	yield   chan struct{}
	prefix  []int
	Choices []int
	Points  []Point
	Trace   []string
	Races   []Race
	Dead    bool
	Panics  []string
	log     map[uintptr][]access
	Ops     int // visible operations executed (scheduling points passed)
	Logged  int // hooked accesses seen (hot or not)
}

var S *Sched // active scheduler (nil = pass-through)

// Hot = sites that are scheduling points. Other hooked accesses are only logged.
var Hot = map[string]bool{}

// AllHot makes every hooked access a scheduling point (used for small scenarios).
var AllHot bool

func cur() *thread {
	if S == nil {
		return nil
	}
	return S.cur
}

// Candidates scans the access log of one execution: every address touched by >=2
// threads with >=1 write makes all its sites candidates for the hot set. The hot set
// itself must only change BETWEEN exploration rounds (a change in mid-round would
// make recorded schedule prefixes diverge).
func (s *Sched) Candidates() []string {
	var out []string
	for _, accs := range s.log {
		tids := map[int]bool{}
		w := false
		for _, a := range accs {
			tids[a.tid] = true
			w = w || a.write
		}
		if len(tids) >= 2 && w {
			for _, a := range accs {
				if !Hot[a.site] {
					out = append(out, a.site)
				}
			}
		}
	}
	return out
}

// ---- hooks called by instrumented code ----

func R[T any](p *T, site string) *T {
	if t := cur(); t != nil {
		a := uintptr(unsafe.Pointer(p))
		S.Logged++
		S.log[a] = append(S.log[a], access{t.id, false, site})
		if AllHot || Hot[site] {
			S.park(Op{Kind: OpRead, Addr: a, Site: site})
		}
	}
	return p
}

func W[T any](p *T, site string) *T {
	if t := cur(); t != nil {
		a := uintptr(unsafe.Pointer(p))
		S.Logged++
		S.log[a] = append(S.log[a], access{t.id, true, site})
		if AllHot || Hot[site] {
			S.park(Op{Kind: OpWrite, Addr: a, Site: site})
		}
	}
	return p
}

// AppendHook is wrapped around the first argument of every append call: when the slice has spare
// capacity, append writes the new element into the (possibly shared) backing array without allocating.
func AppendHook[T any](s []T, site string) []T {
	if t := cur(); t != nil && cap(s) > len(s) {
		a := uintptr(unsafe.Pointer(&s[:cap(s)][len(s)]))
		S.Logged++
		S.log[a] = append(S.log[a], access{t.id, true, site})
		if AllHot || Hot[site] {
			S.park(Op{Kind: OpWrite, Addr: a, Site: site})
		}
	}
	return s
}

// AtomicPoint is a scheduling point for an atomic operation (never a race candidate).
func AtomicPoint(p unsafe.Pointer, site string) {
	if t := cur(); t != nil {
		S.park(Op{Kind: OpAtomic, Addr: uintptr(p), Site: site})
	}
}

// ---- synchronisation shims (aliased by verifmc/vsync) ----

type Mutex struct {
	real   sync.Mutex
	holder *thread
}

func (m *Mutex) Lock() {
	if cur() != nil {
		S.park(Op{Kind: OpLock, Mu: m, Site: "Mutex.Lock"})
		return
	}
	m.real.Lock()
}

func (m *Mutex) Unlock() {
	if cur() != nil {
		S.park(Op{Kind: OpUnlock, Mu: m, Site: "Mutex.Unlock"})
		return
	}
	m.real.Unlock()
}

func (m *Mutex) TryLock() bool {
	if t := cur(); t != nil {
		S.park(Op{Kind: OpAtomic, Site: "Mutex.TryLock"})
		if m.holder == nil {
			m.holder = t
			return true
		}
		return false
	}
	return m.real.TryLock()
}

type RWMutex struct {
	real    sync.RWMutex
	writer  *thread
	readers int
}

func (m *RWMutex) Lock() {
	if cur() != nil {
		S.park(Op{Kind: OpLock, RW: m, Site: "RWMutex.Lock"})
		return
	}
	m.real.Lock()
}
func (m *RWMutex) Unlock() {
	if cur() != nil {
		S.park(Op{Kind: OpUnlock, RW: m, Site: "RWMutex.Unlock"})
		return
	}
	m.real.Unlock()
}
func (m *RWMutex) RLock() {
	if cur() != nil {
		S.park(Op{Kind: OpRLock, RW: m, Site: "RWMutex.RLock"})
		return
	}
	m.real.RLock()
}
func (m *RWMutex) RUnlock() {
	if cur() != nil {
		S.park(Op{Kind: OpRUnlock, RW: m, Site: "RWMutex.RUnlock"})
		return
	}
	m.real.RUnlock()
}
func (m *RWMutex) RLocker() sync.Locker { return (*rlocker)(m) }

type rlocker RWMutex

func (r *rlocker) Lock()   { (*RWMutex)(r).RLock() }
func (r *rlocker) Unlock() { (*RWMutex)(r).RUnlock() }

// Once: the done flag is an atomic, the slow path takes the mutex.
type Once struct {
	m    Mutex
	done bool
}

func (o *Once) Do(f func()) {
	AtomicPoint(unsafe.Pointer(o), "Once.Do(load)")
	if o.done {
		return
	}
	o.m.Lock()
	defer o.m.Unlock()
	if !o.done {
		defer func() {
			AtomicPoint(unsafe.Pointer(o), "Once.Do(store)")
			o.done = true
		}()
		f()
	}
}

// ---- scheduler ----

func (s *Sched) park(op Op) {
	t := s.cur
	t.pending = op
	s.yield <- struct{}{}
	<-t.wake
}

func (s *Sched) enabled(t *thread) bool {
	if t.done {
		return false
	}
	p := t.pending
	switch p.Kind {
	case OpLock:
		if p.Mu != nil {
			return p.Mu.holder == nil
		}
		return p.RW.writer == nil && p.RW.readers == 0
	case OpRLock:
		return p.RW.writer == nil
	}
	return true
}

// Run executes bodies under the schedule given by prefix (then default choice 0).
func Run(prefix []int, bodies []func()) *Sched {
	s := &Sched{yield: make(chan struct{}), prefix: prefix, log: map[uintptr][]access{}}
	S = s
	defer func() { S = nil }()
	for i, b := range bodies {
		t := &thread{id: i, wake: make(chan struct{}), pending: Op{Kind: OpStart}}
		s.threads = append(s.threads, t)
		go func(t *thread, b func()) {
			<-t.wake
			defer func() {
				if r := recover(); r != nil {
					t.panicv = r
					s.Panics = append(s.Panics, fmt.Sprintf("T%d: %v", t.id, r))
				}
				t.done = true
				s.yield <- struct{}{}
			}()
			b()
		}(t, b)
	}
	var last *thread
	for {
		// data race = two live threads whose pending (enabled) operations are conflicting plain accesses to one address
		for i, a := range s.threads {
			for _, b := range s.threads[i+1:] {
				if a.done || b.done {
					continue
				}
				pa, pb := a.pending, b.pending
				plainA := pa.Kind == OpRead || pa.Kind == OpWrite
				plainB := pb.Kind == OpRead || pb.Kind == OpWrite
				if plainA && plainB && pa.Addr == pb.Addr && (pa.Kind == OpWrite || pb.Kind == OpWrite) {
					s.Races = append(s.Races, Race{Addr: pa.Addr, Desc: fmt.Sprintf("%s@%s || %s@%s", pa.Kind, pa.Site, pb.Kind, pb.Site)})
				}
			}
		}
		var en []int
		runEn := last != nil && s.enabled(last)
		if runEn {
			en = append(en, last.id)
		}
		for _, t := range s.threads {
			if s.enabled(t) && !(runEn && t == last) {
				en = append(en, t.id)
			}
		}
		if len(en) == 0 {
			for _, t := range s.threads {
				if !t.done {
					s.Dead = true
				}
			}
			if s.Dead {
				// release the blocked goroutines so that they do not leak: they stay parked forever otherwise
				// (they are abandoned; each holds only its own stack)
			}
			return s
		}
		c := 0
		if len(s.Choices) < len(s.prefix) {
			c = s.prefix[len(s.Choices)]
			if c >= len(en) {
				panic(fmt.Sprintf("replay divergence at point %d: choice %d of %d enabled", len(s.Choices), c, len(en)))
			}
		}
		s.Points = append(s.Points, Point{Enabled: en, RunningEnabled: runEn})
		s.Choices = append(s.Choices, c)
		t := s.threads[en[c]]
		// apply the synchronisation effect of the granted operation
		p := t.pending
		switch p.Kind {
		case OpLock:
			if p.Mu != nil {
				p.Mu.holder = t
			} else {
				p.RW.writer = t
			}
		case OpUnlock:
			if p.Mu != nil {
				p.Mu.holder = nil
			} else {
				p.RW.writer = nil
			}
		case OpRLock:
			p.RW.readers++
		case OpRUnlock:
			p.RW.readers--
		}
		if p.Kind != OpStart {
			s.Ops++
		}
		s.Trace = append(s.Trace, fmt.Sprintf("T%d:%s@%s", t.id, p.Kind, p.Site))
		s.cur = t
		last = t
		t.wake <- struct{}{}
		<-s.yield
		s.cur = nil
	}
}

// StopExploring can be set by the visit callback to end the current exploration early
// (used once a violation has been found and confirmed: the verdict is already decided).
var StopExploring bool

// Explore does preemption-bounded depth-first search (bound < 0: unbounded); visit is
// called once per execution. limit > 0 caps the number of executions (returns capped=true).
func Explore(bound int, limit int, bodies func() []func(), visit func(s *Sched)) (execs int, capped bool) {
	StopExploring = false
	var rec func(prefix []int)
	rec = func(prefix []int) {
		if StopExploring {
			return
		}
		if limit > 0 && execs >= limit {
			capped = true
			return
		}
		s := Run(prefix, bodies())
		execs++
		visit(s)
		pre := 0
		costs := make([]int, len(s.Points))
		for i, p := range s.Points {
			costs[i] = pre
			if p.RunningEnabled && s.Choices[i] != 0 {
				pre++
			}
		}
		for i := len(prefix); i < len(s.Points); i++ {
			p := s.Points[i]
			cost := costs[i]
			if p.RunningEnabled {
				cost++ // switching away from a runnable thread is a preemption
			}
			if bound >= 0 && cost > bound {
				continue
			}
			for alt := 1; alt < len(p.Enabled); alt++ {
				rec(append(append([]int{}, s.Choices[:i]...), alt))
			}
		}
	}
	rec(nil)
	return
}
