// Package vsync replaces "sync" in the generated overlay: scheduler-aware Mutex,
// RWMutex, Once and Map (pass-through outside an exploration); everything else is the real thing.
package vsync

import (
	"sync"
	"unsafe"

	"verifmc/vrt"
)

type (
	Mutex     = vrt.Mutex
	RWMutex   = vrt.RWMutex
	Once      = vrt.Once
	Locker    = sync.Locker
	WaitGroup = sync.WaitGroup
	Pool      = sync.Pool
	Cond      = sync.Cond
)

func NewCond(l Locker) *Cond { return sync.NewCond(l) }

func OnceFunc(f func()) func() {
	var o Once
	return func() { o.Do(f) }
}

func OnceValue[T any](f func() T) func() T {
	var o Once
	var v T
	return func() T { o.Do(func() { v = f() }); return v }
}

// Map: every operation is one atomic scheduling point.
type Map struct{ m sync.Map }

func (m *Map) pt(op string) { vrt.AtomicPoint(unsafe.Pointer(m), "sync.Map."+op) }

func (m *Map) Load(k any) (any, bool)           { m.pt("Load"); return m.m.Load(k) }
func (m *Map) Store(k, v any)                   { m.pt("Store"); m.m.Store(k, v) }
func (m *Map) LoadOrStore(k, v any) (any, bool) { m.pt("LoadOrStore"); return m.m.LoadOrStore(k, v) }
func (m *Map) LoadAndDelete(k any) (any, bool)  { m.pt("LoadAndDelete"); return m.m.LoadAndDelete(k) }
func (m *Map) Delete(k any)                     { m.pt("Delete"); m.m.Delete(k) }
func (m *Map) Swap(k, v any) (any, bool)        { m.pt("Swap"); return m.m.Swap(k, v) }
func (m *Map) CompareAndSwap(k, o, n any) bool {
	m.pt("CompareAndSwap")
	return m.m.CompareAndSwap(k, o, n)
}
func (m *Map) CompareAndDelete(k, o any) bool {
	m.pt("CompareAndDelete")
	return m.m.CompareAndDelete(k, o)
}
func (m *Map) Range(f func(k, v any) bool) { m.pt("Range"); m.m.Range(f) }
