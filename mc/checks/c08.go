package checks

import (
	"fmt"
	"reflect"
	"strings"

	bexpr "github.com/hashicorp/go-bexpr"

	"verifmc/eng"
	. "verifmc/model"
)

func init() {
	eng.Register(&eng.Check{
		ID:          "C08",
		Rule:        "E1 two-run non-interference: a struct with a renamed field (bexpr:\"v\" json:\"jv\"), fields hidden under each tag name (bexpr:\"-\", json:\"-\", pointer:\"-\"), an unexported field and a rename-colliding field (tag = Go name of a hidden field), placed at top level / behind a pointer / as map value / slice element / [1]S and *[2]S array element / nested struct field / embedded struct (also asked for by the promoted names) / []*S element; EVERY assignment of a 3-value hidden-content alphabet (the literal used by the expressions, the zero value nil, a map holding it) to the 4 hideable fields (81 data per nesting), in two variants (visible fields non-zero / all visible fields zero); data are grouped by their projection on the fields visible under the configuration (tag name in {bexpr, json, \"\", a key with a non-ASCII letter and punctuation} x unknown value {none, \"secret\"}); oracle: (a) every expression (hidden field by Go name, tag name, JSON pointer, through quantifiers, in / is empty / matches / == on the field, on the enclosing struct and on the container holding it) has ONE outcome per group; (b) agreement with the reference (a hidden field never resolves to its content; renamed field only under its tag name); (c) Filter.Execute over the members of one group keeps all or none. Distinct by construction; non-trivial = group with >=2 members differing in hidden contents.",
		Assumptions: []string{"reference interpreter as C01", "hidden-content alphabet of 3 values"},
		Run:         runC08,
	})
}

var c08Hidden = []*Node{str("secret"), NNilAny(), NMap(TStr, TAny, str("token"), str("secret"))}

// c08ZeroVisible selects the variant whose visible fields hold zero values (so that the whole struct value is
// zero exactly when its hidden fields are)
var c08ZeroVisible bool

func c08Struct(h, j, u, p *Node) *Node {
	if c08ZeroVisible {
		return NStruct(
			F{Name: "V", Tag: `bexpr:"v" json:"jv" pointer:"pv" É-Tag.v2:"jv"`, V: NNilAny()},
			F{Name: "H", Tag: `bexpr:"-" json:"h" É-Tag.v2:"h"`, V: NAny(h)},
			F{Name: "J", Tag: `json:"-" É-Tag.v2:"-"`, V: NAny(j)},
			F{Name: "u", Unexp: true, V: NAny(u)},
			F{Name: "R", Tag: `bexpr:"H" json:"J" pointer:"P" É-Tag.v2:"J"`, V: NNilAny()},
			F{Name: "P", Tag: `pointer:"-" json:"p" É-Tag.v2:"p"`, V: NAny(p)},
			F{Name: "N", V: NInt(KInt, false, 0)},
		)
	}
	return NStruct(
		F{Name: "V", Tag: `bexpr:"v" json:"jv" pointer:"pv" É-Tag.v2:"jv"`, V: NAny(str("vis"))},
		F{Name: "H", Tag: `bexpr:"-" json:"h" É-Tag.v2:"h"`, V: NAny(h)},
		F{Name: "J", Tag: `json:"-" É-Tag.v2:"-"`, V: NAny(j)},
		F{Name: "u", Unexp: true, V: NAny(u)},
		F{Name: "R", Tag: `bexpr:"H" json:"J" pointer:"P" É-Tag.v2:"J"`, V: NAny(str("renamed"))},
		F{Name: "P", Tag: `pointer:"-" json:"p" É-Tag.v2:"p"`, V: NAny(p)},
	)
}

// c08OddTag: a legal struct-tag key with non-ASCII and UPPER-CASE letters and punctuation (a tag key is case sensitive); the struct declares under it exactly what it declares under json
const c08OddTag = "\u00c9-Tag.v2"

// which of (H,J,u,P) are hidden under a tag name
func c08HiddenSet(tag string) [4]bool {
	switch tag {
	case "bexpr":
		return [4]bool{true, false, true, false}
	case "json", c08OddTag:
		return [4]bool{false, true, true, false}
	}
	return [4]bool{false, false, true, true} // "" => "pointer"
}

type c08Nest struct {
	name   string
	prefix []string
	wrap   func(s *Node) *Node
}

// c08AlsoTop: nests for which the struct's field names are also asked for WITHOUT the prefix (Go promotes the fields of an
// embedded struct; lookups must not)
var c08AlsoTop = map[string]bool{"embedded-struct": true}

func c08Nests() []c08Nest {
	return []c08Nest{
		{"top", nil, func(s *Node) *Node { return s }},
		{"pointer", nil, func(s *Node) *Node { return NPtr(s) }},
		{"map-value", []string{"m", "k"}, func(s *Node) *Node { return NMap(TStr, TAny, str("m"), NMap(TStr, s.T, str("k"), s)) }},
		{"slice-elem", []string{"l", "0"}, func(s *Node) *Node { return NMap(TStr, TAny, str("l"), NSlice(s.T, s)) }},
		{"nested-struct", []string{"N"}, func(s *Node) *Node { return NStruct(F{Name: "N", V: s}, F{Name: "x", Unexp: true, V: one}) }},
		// embedded (anonymous) struct: reachable as a field called S; its fields - hidden ones too - are promoted by Go's FieldByName,
		// which a lookup must not use; the outer struct has no tagged field of its own
		{"embedded-struct", []string{"S"}, func(s *Node) *Node { return NStruct(F{Name: "S", Embedded: true, V: s}, F{Name: "Other", V: one}) }},
		{"embedded-struct-behind-pointer-in-list", []string{"l", "0", "S"}, func(s *Node) *Node {
			return NMap(TStr, TAny, str("l"), NSlice(TAny, NPtr(NStruct(F{Name: "S", Embedded: true, V: s}))))
		}},
		// fixed-size arrays: "zero-ness" of an array looks into every field of its elements, hidden ones included
		{"array-elem", []string{"l", "0"}, func(s *Node) *Node { return NMap(TStr, TAny, str("l"), NArray(s.T, s)) }},
		{"array2-elem-behind-pointer", []string{"l", "1"}, func(s *Node) *Node { return NMap(TStr, TAny, str("l"), NPtr(NArray(s.T, s, s))) }},
		{"ptr-slice-elem", []string{"l", "0"}, func(s *Node) *Node {
			return NPtr(NStruct(F{Name: "L", Tag: `bexpr:"l" json:"l" pointer:"l"`, V: NSlice(&Type{K: KPtr, Elem: s.T}, NPtr(s))}))
		}},
	}
}

func c08Exprs(prefix []string) []any {
	var out []any
	names := []string{"H", "h", "J", "u", "P", "p", "R", "V", "v", "jv", "pv", "zz"}
	sel := func(n ...string) []string { return append(append([]string{}, prefix...), n...) }
	for _, n := range names {
		for _, lit := range []string{"secret", "1", "vis", "renamed"} {
			out = append(out, &Match{Sel: sel(n), Op: OpEq, Lit: lit}, &Match{Sel: sel(n), Op: OpIn, Lit: lit}, &Match{Sel: sel(n), Op: OpMatches, Lit: lit})
		}
		out = append(out, &Match{Sel: sel(n), Op: OpEmpty}, &Match{Sel: sel(n), Op: OpNe, Lit: "secret"}, &Match{Sel: sel(n, "0"), Op: OpEq, Lit: "secret"},
			&Match{Sel: sel(n, "token"), Op: OpEq, Lit: "secret"}, &Match{Sel: sel(n, "zz"), Op: OpNe, Lit: "x"}, &Match{Sel: sel(n, "zz"), Op: OpEmpty},
			&Quant{All: true, Sel: sel(n, "zz"), Mode: BindDefault, Val: "x", Body: &Match{Sel: []string{"x"}, Op: OpEq, Lit: "1"}},
			&Match{Sel: sel(n), Op: OpEq, Lit: "secret", JP: true},
			&Quant{All: false, Sel: sel(n), Mode: BindDefault, Val: "x", Body: &Match{Sel: []string{"x"}, Op: OpEq, Lit: "secret"}})
	}
	// expressions that hold for all-zero visible fields (an element must not be dropped or kept because of hidden zero-ness)
	out = append(out, &Match{Sel: sel("N"), Op: OpEq, Lit: "0"}, &Match{Sel: sel("N"), Op: OpNe, Lit: "1"}, &Not{X: &Match{Sel: sel("N"), Op: OpEq, Lit: "1"}},
		&Bin{Or: true, L: &Match{Sel: sel("N"), Op: OpEq, Lit: "0"}, R: &Match{Sel: sel("v"), Op: OpEq, Lit: "vis"}})
	// on the enclosing struct as a whole
	if len(prefix) > 0 {
		for _, lit := range []string{"secret", "1"} {
			out = append(out, &Match{Sel: prefix, Op: OpEq, Lit: lit}, &Match{Sel: prefix, Op: OpIn, Lit: lit}, &Match{Sel: prefix, Op: OpMatches, Lit: lit})
		}
		out = append(out, &Match{Sel: prefix, Op: OpEmpty},
			&Quant{All: false, Sel: prefix, Mode: BindBoth, Idx: "k", Val: "x", Body: &Match{Sel: []string{"x"}, Op: OpEq, Lit: "secret"}})
		// through a quantifier over the container holding the struct
		cont := prefix[:len(prefix)-1]
		if len(cont) > 0 {
			for _, n := range names {
				out = append(out,
					&Quant{All: false, Sel: cont, Mode: BindValue, Val: "x", Body: &Match{Sel: []string{"x", n}, Op: OpEq, Lit: "secret"}},
					&Quant{All: true, Sel: cont, Mode: BindBoth, Idx: "i", Val: "x", Body: &Match{Sel: []string{"x", n}, Op: OpIn, Lit: "secret"}})
			}
			// the container as a whole
			out = append(out, &Match{Sel: cont, Op: OpEmpty}, &Not{X: &Match{Sel: cont, Op: OpEmpty}}, &Match{Sel: cont, Op: OpIn, Lit: "secret"}, &Match{Sel: cont, Op: OpEq, Lit: "secret"})
			out = append(out, &Quant{All: false, Sel: cont, Mode: BindValue, Val: "x", Body: &Match{Sel: []string{"x"}, Op: OpIn, Lit: "secret"}},
				&Quant{All: false, Sel: cont, Mode: BindValue, Val: "x", Body: &Match{Sel: []string{"x"}, Op: OpMatches, Lit: "secret"}})
		}
	}
	return out
}

func runC08(c *eng.Ctx) {
	nests := c08Nests()
	cfgs := []Cfg{{Tag: "bexpr"}, {Tag: "json"}, {Tag: ""}, {Tag: "bexpr", Unknown: str("secret")}, {Tag: "json", Unknown: str("secret")}, {Tag: c08OddTag}}
	// all 81 hidden-content assignments
	type datum struct {
		hid  [4]int
		node *Node
		val  interface{}
	}
	unit := 0
	for pass := 0; pass < 2; pass++ {
		c08ZeroVisible = pass == 1
		for ni0, nest := range nests {
			ni := ni0 + pass*len(nests)
			var ds []datum
			for a := 0; a < 81; a++ {
				h := [4]int{a % 3, a / 3 % 3, a / 9 % 3, a / 27 % 3}
				n := nest.wrap(c08Struct(c08Hidden[h[0]], c08Hidden[h[1]], c08Hidden[h[2]], c08Hidden[h[3]]))
				ds = append(ds, datum{h, n, Build(n).Interface()})
			}
			es := c08Exprs(nest.prefix)
			if c08AlsoTop[nest.name] {
				es = append(es, c08Exprs(nil)...)
			}
			for ci, cfg := range cfgs {
				hidden := c08HiddenSet(cfg.Tag)
				group := func(d datum) string {
					var sb strings.Builder
					for i := 0; i < 4; i++ {
						if !hidden[i] {
							fmt.Fprintf(&sb, "%d", d.hid[i])
						} else {
							sb.WriteByte('*')
						}
					}
					return sb.String()
				}
				for ei, e := range es {
					unit++
					if !c.Mine(unit) || !c.Want("n", ni) || !c.Want("c", ci) || !c.Want("e", ei) {
						continue
					}
					if c.Expired() {
						return
					}
					src := Render(e)
					ev, err := createWith(src, cfg)
					if err != nil {
						c.Violate(eng.Violation{Kind: "harness-expression-rejected", Key: "create: " + src, Detail: err.Error()})
						continue
					}
					seen := map[string]int{}
					seenDoc := map[string]*Node{}
					members := map[string][]interface{}{}
					for _, d := range ds {
						got := observe(ev, d.val)
						want := NewRef(d.node, cfg).Eval(e, nil)
						c.R.Evaluations++
						c.R.Traces++
						c.R.States++
						co := map[string]int{"n": ni, "c": ci, "e": ei}
						if got.panicked || got.class&want == 0 {
							c.Violate(eng.Violation{Kind: "reference-mismatch", Key: caseKey(src, d.node, cfg), Coords: co, Case: describe(src, d.node, cfg), Expected: SetStr(want), Observed: got.String(), Detail: got.msg})
							continue
						}
						g := group(d)
						members[g] = append(members[g], d.val)
						if prev, ok := seen[g]; ok {
							if prev != cls3(got) {
								c.Violate(eng.Violation{Kind: "hidden-content-influences-outcome", Key: caseKey(src, d.node, cfg), Coords: co, Case: describe(src, d.node, cfg),
									Expected: v3name[prev] + " (as on " + seenDoc[g].String() + ")", Observed: got.String(), Detail: "nesting=" + nest.name})
							}
						} else {
							seen[g] = cls3(got)
							seenDoc[g] = d.node
							c.R.Nontrivial++
						}
						c.Count(v3name[cls3(got)])
					}
					// (c) filter over the members of each group: all kept or none kept (or an error)
					if cfg.Tag == "bexpr" && cfg.Unknown == nil {
						flt, err := bexpr.CreateFilter(src)
						if err == nil && flt != nil {
							for g, ms := range members {
								sl := reflect.MakeSlice(reflect.SliceOf(reflect.TypeOf(ms[0])), 0, len(ms))
								mp := reflect.MakeMap(reflect.MapOf(reflect.TypeOf(""), reflect.TypeOf(ms[0])))
								for i, m := range ms {
									sl = reflect.Append(sl, reflect.ValueOf(m))
									mp.SetMapIndex(reflect.ValueOf(fmt.Sprint("k", i)), reflect.ValueOf(m))
								}
								for _, cont := range []reflect.Value{sl, mp} {
									n, ferr, pan := execLen(flt, cont.Interface())
									c.R.Evaluations++
									if pan != "" || (ferr == nil && n != 0 && n != len(ms)) {
										c.Violate(eng.Violation{Kind: "filter-selection-depends-on-hidden-content", Key: "filter=" + src + " | group=" + g + " | nesting=" + nest.name + " | kind=" + cont.Kind().String(),
											Coords: map[string]int{"n": ni, "c": ci, "e": ei}, Expected: fmt.Sprintf("0 or %d elements kept", len(ms)), Observed: fmt.Sprintf("%d kept %s", n, pan)})
									} else {
										c.Count("filter-groups")
									}
								}
							}
						}
					}
					c.Sample(map[string]any{"expression": src, "config": cfg.String(), "nesting": nest.name, "data": len(ds)})
				}
			}
		}
	}
}

func execLen(f *bexpr.Filter, data interface{}) (n int, err error, panicked string) {
	defer func() {
		if r := recover(); r != nil {
			panicked = fmt.Sprint("PANIC: ", r)
		}
	}()
	eng.CallBegin(f, data)
	defer eng.CallEnd()
	res, err := f.Execute(data)
	if err != nil {
		return 0, err, ""
	}
	return reflect.ValueOf(res).Len(), nil, ""
}
