//go:build verif

package checks

import (
	"fmt"
	"os"
	"os/exec"
	"runtime"
	"runtime/debug"
	"sort"
	"strings"
	"sync/atomic"

	bexpr "github.com/hashicorp/go-bexpr"

	"verifmc/eng"
	. "verifmc/model"
	"verifmc/vrt"
)

func init() {
	eng.Register(&eng.Check{
		ID:           "C12",
		Rule:         "E3 schedule explorer on the real code (stateless, depth-first, preemption-bounded; hand-written cooperative scheduler): k threads each perform m calls of Evaluate / Execute on ONE shared evaluator / filter (or create evaluators concurrently); the visible operations are the accesses hooked by the generated overlay (every read/write of a field of the packages' own struct types reached through a pointer, of a package-level variable, map element writes) and all sync / sync/atomic operations (shimmed). A site becomes a scheduling point when its address is touched by >=2 threads with >=1 write during the concurrent phase; exploration restarts until this hot set reaches a fixpoint. Scenarios: expressions with one and two matches / not matches nodes (also behind short-circuits, inside quantifiers, with unknown-value and hook options), ==, in, quantifiers; shared and distinct data; first use and steady state; 2x1, 2x2, 3x1 threads x calls with UNBOUNDED preemptions, 3x2 with preemption bound 2 (thorough 3). Oracle in every explored state: data race = two threads parked with enabled pending conflicting plain accesses to one address; every call's result equals the sequential result; deadlock = no enabled thread; a violating schedule is replayed twice and must reproduce. states = complete schedules executed, transitions = visible operations executed; non-trivial = schedules with at least one scheduling decision beyond thread order. Complement (sampling, not deciding): the same scenario bodies run free under `go build -race` without the overlay.",
		Assumptions:  []string{"sequential consistency at hooked accesses and sync operations; accesses inside dependencies, weak-memory effects and goroutines started by the code under test are outside the model (the free-running -race pass is the stated complement)", "bounded: threads x calls and preemption bound as stated per scenario"},
		Run:          runC12,
		NeedsOverlay: "full",
		Finalize:     c12Finalize,
	})
}

type c12Scenario struct {
	name    string
	src     string
	opts    Cfg
	filter  bool
	threads int
	ops     int
	data    []interface{} // data[(t*ops+k) % len]
	warm    bool
	create  bool // every thread creates its own evaluator from src concurrently
	bound   int
	budgets []uint64 // create scenarios: creation number i is given WithMaxExpressions(budgets[i % len]); a creation that fails is an outcome, not an error of the harness
}

func c12Scenarios(thorough bool) []c12Scenario {
	d1 := map[string]interface{}{"s": "aaa", "t": "b", "l": []interface{}{"a", "b"}, "w": Wrapper{W: "a"}}
	d2 := map[string]interface{}{"s": "zzz", "t": "x", "l": []interface{}{"x"}, "w": Wrapper{W: "b"}}
	d3 := map[string]interface{}{"s": 1, "t": "b"}
	cont := []map[string]interface{}{{"f": "aa"}, {"f": "b"}}
	cont2 := map[string]map[string]interface{}{"x": {"f": "a"}, "y": {"f": "c"}}
	// deep documents: collection selectors of 3 and 5 segments (slices built by successive appends have spare capacity there)
	deep := func(vals ...interface{}) map[string]interface{} {
		return map[string]interface{}{"a": map[string]interface{}{"b": map[string]interface{}{"c": vals, "d": map[string]interface{}{"e": map[string]interface{}{"f": vals}}}}}
	}
	deeps := []interface{}{deep("x", "y", "a"), deep("a"), deep("q", "a", "z", "w")}
	// the same with MAPS behind the 3- and 5-segment selectors (the map arm of the quantifier builds its element paths separately from the list arm)
	deepM := func(kv ...string) map[string]interface{} {
		m := map[string]interface{}{}
		for i := 0; i+1 < len(kv); i += 2 {
			m[kv[i]] = kv[i+1]
		}
		return map[string]interface{}{"a": map[string]interface{}{"b": map[string]interface{}{"c": m, "d": map[string]interface{}{"e": map[string]interface{}{"f": m}}}}}
	}
	deepMs := []interface{}{deepM("k1", "x", "k2", "a"), deepM("k3", "a"), deepM("k0", "q", "k4", "z", "k5", "a")}
	shared := []interface{}{d1}
	kinds := []interface{}{map[string]interface{}{"n": 7, "m": []int{7}}, map[string]interface{}{"n": 7.0, "m": []float64{7}}, map[string]interface{}{"n": uint8(7), "m": []interface{}{7, 7.0, float32(7)}}, map[string]interface{}{"n": "7", "m": []string{"7"}}}
	typed := []interface{}{map[string]interface{}{"n": []int{7, 0}}, map[string]interface{}{"n": []float64{0, 1.5}}, map[string]interface{}{"n": []bool{false}}}
	mixed := []interface{}{d1, d2, d3}
	sc := []c12Scenario{
		{name: "matches 2x1 first use", src: "s matches `a+`", threads: 2, ops: 1, data: shared, bound: -1},
		{name: "matches 2x2 first use", src: "s matches `a+`", threads: 2, ops: 2, data: mixed, bound: -1},
		{name: "matches 3x1 first use", src: "s matches `a+`", threads: 3, ops: 1, data: mixed, bound: -1},
		{name: "not matches 2x1 distinct data", src: "s not matches `b`", threads: 2, ops: 1, data: mixed, bound: -1},
		{name: "two caches 2x1", src: "s matches `a` and t matches `b`", threads: 2, ops: 1, data: shared, bound: -1},
		{name: "short-circuit 2x1", src: "t == `x` or s matches `a+`", threads: 2, ops: 1, data: mixed, bound: -1},
		{name: "quantifier 2x1", src: "any l as x { x matches `a` }", threads: 2, ops: 1, data: mixed, bound: -1},
		{name: "unknown value 2x1", src: "zz matches `a`", opts: Cfg{Tag: "bexpr", Unknown: str("a")}, threads: 2, ops: 1, data: shared, bound: -1},
		{name: "hook 2x1", src: "w matches `a`", opts: Cfg{Tag: "bexpr", Hook: HookUnwrap}, threads: 2, ops: 1, data: mixed, bound: -1},
		{name: "filter slice 2x1", src: "f matches `a+`", filter: true, threads: 2, ops: 1, data: []interface{}{cont}, bound: -1},
		{name: "filter map 2x1", src: "f not matches `a`", filter: true, threads: 2, ops: 1, data: []interface{}{cont2, cont}, bound: -1},
		{name: "filter arrays of two types 2x2", src: "f == `a`", filter: true, threads: 2, ops: 2, data: []interface{}{[2]map[string]interface{}{{"f": "a"}, {"f": "b"}}, [1]map[string]string{{"f": "a"}}, [3]fS{{F: "a"}, {F: 1}, {F: "a"}}}, bound: -1},
		{name: "filter array first use 3x1", src: "f != `a`", filter: true, threads: 3, ops: 1, data: []interface{}{[2]map[string]interface{}{{"f": "a"}, {"f": "b"}}}, bound: -1},
		{name: "no regexp 2x2", src: "s == `aaa` and `a` in l", threads: 2, ops: 2, data: mixed, bound: -1},
		{name: "quantifier no regexp 3x1", src: "all l as i, x { x != `q` and i != 9 }", threads: 3, ops: 1, data: mixed, bound: -1},
		{name: "steady state 3x2", src: "s matches `a+`", threads: 3, ops: 2, data: mixed, warm: true, bound: -1},
		{name: "concurrent creation 2x1", src: "s matches `a+` or t == `b`", create: true, threads: 2, ops: 1, data: mixed, bound: -1},
		{name: "quantifier over a 3-segment selector 2x1", src: "any a.b.c as x { x == `a` }", threads: 2, ops: 1, data: deeps, bound: -1},
		{name: "quantifier over a 5-segment selector 2x2", src: "all a.b.d.e.f as i, x { x != `nope` and i != 7 }", threads: 2, ops: 2, data: deeps, bound: 2},
		{name: "quantifier over a map behind a 3-segment selector 2x1", src: "any a.b.c as k, v { v == `a` and k != `k9` }", threads: 2, ops: 1, data: deepMs, bound: -1},
		{name: "quantifier (value only) over a map behind a 5-segment selector 2x2", src: "all a.b.d.e.f as _, v { v != `nope` }", threads: 2, ops: 2, data: deepMs, bound: 2},
		{name: "map inside list quantifier over deep selectors 2x1", src: "any a.b.c as _, v { any a.b.d.e.f as k, w { v == w and k != `` } }", threads: 2, ops: 1, data: deepMs, bound: 2},
		{name: "nested quantifiers over deep selectors 2x1", src: "any a.b.c as x { any a.b.d.e.f as y { x == y } }", threads: 2, ops: 1, data: deeps, bound: 2},
		// error paths: a pattern that never compiles (first use and steady state), a literal that never coerces, absent fields - the calls fail, sharing must still be safe
		{name: "invalid pattern 2x1 first use", src: "s matches `(`", threads: 2, ops: 1, data: shared, bound: -1},
		{name: "invalid pattern 2x2 mixed data", src: "s matches `a(` or t matches `[b`", threads: 2, ops: 2, data: mixed, bound: -1},
		{name: "invalid pattern steady state 3x1", src: "s not matches `(?P<n`", threads: 3, ops: 1, data: shared, warm: true, bound: -1},
		{name: "invalid pattern in quantifier 2x1", src: "any l as x { x matches `*` }", threads: 2, ops: 1, data: mixed, bound: -1},
		{name: "invalid pattern filter 2x1", src: "f matches `(`", filter: true, threads: 2, ops: 1, data: []interface{}{cont}, bound: -1},
		{name: "uncoercible literal over typed slices 2x2", src: "`abc` in n or n contains `1.5`", threads: 2, ops: 2, data: typed, bound: -1},
		// one selector meeting DIFFERENT kinds in concurrent calls (anything remembered about the literal per node is contended)
		{name: "numeric literal over mixed kinds 2x2", src: "n == 7 or `7` in m", threads: 2, ops: 2, data: kinds, bound: -1},
		{name: "zero-fraction literal over mixed kinds 2x2", src: "n == 7.0 or `7.0` in m", threads: 2, ops: 2, data: kinds, bound: -1},
		{name: "zero-fraction literal on integers first use 2x1", src: "n == 7.0", threads: 2, ops: 1, data: []interface{}{kinds[0]}, bound: -1},
		{name: "matches over byte-slice values 2x1 first use", src: "s matches `a+`", threads: 2, ops: 1, data: []interface{}{map[string]interface{}{"s": []byte("aaa")}}, bound: -1},
		{name: "matches over byte-slice and string values 2x2", src: "s matches `a+` or s not matches `z`", threads: 2, ops: 2, data: []interface{}{map[string]interface{}{"s": []byte("aaa")}, d1, map[string]interface{}{"s": MyBytes("zz")}}, bound: -1},
		{name: "numeric literal over mixed kinds 3x1", src: "n != 7 and m contains `7`", threads: 3, ops: 1, data: kinds, bound: -1},
		// quantifier bindings next to an unknown value (an option list with spare capacity that every call extends)
		{name: "quantifier with unknown value 2x2", src: "any l as x { x == `a` or zz == 1 }", opts: Cfg{Tag: "bexpr", Unknown: one}, threads: 2, ops: 2, data: mixed, bound: -1},
		{name: "nested quantifier with unknown value and hook 3x1", src: "all l as i, x { (any l as y { y == `a` }) or zz == 2 }", opts: Cfg{Tag: "bexpr", Unknown: one, Hook: HookIdentity}, threads: 3, ops: 1, data: mixed, bound: 2},
		{name: "absent field and index errors 2x2", src: "s.zz == 1 or l.9 == `a` or zz.q is empty", threads: 2, ops: 2, data: mixed, bound: -1},
		{name: "matches 3x2 first use (bounded)", src: "s matches `a+`", threads: 3, ops: 2, data: mixed, bound: 2},
		{name: "two caches 3x1 (bounded)", src: "s matches `a` or t matches `b`", threads: 3, ops: 1, data: mixed, bound: 2},
	}
	sc = append(sc, c12BudgetScenarios()...)
	if thorough {
		sc = append(sc,
			c12Scenario{name: "matches 3x2 first use (bound 3)", src: "s matches `a+`", threads: 3, ops: 2, data: mixed, bound: 3},
			c12Scenario{name: "two caches 2x2", src: "s matches `a` and t matches `b`", threads: 2, ops: 2, data: mixed, bound: -1},
			c12Scenario{name: "two caches 3x1 (bound 3)", src: "s matches `a` or t matches `b`", threads: 3, ops: 1, data: mixed, bound: 3},
			c12Scenario{name: "nested quantifier 2x2", src: "any l as x { x matches `a` or s matches `z` }", threads: 2, ops: 2, data: mixed, bound: -1},
			c12Scenario{name: "matches 4x1 (bound 2)", src: "s matches `a+`", threads: 4, ops: 1, data: mixed, bound: 2},
		)
	}
	return sc
}

// MyBytes: a named byte-slice type (convertible to []byte, not identical to it)
type MyBytes []byte

type c12Call struct {
	class int
	sig   string
}

var c12Unique int64

// newInstance creates a fresh evaluator / filter. Every regular-expression literal is made textually
// unique per instance (an alternative that never matches is appended) so that process-global state keyed
// by the literal is cold for every instance, not only for the first one of the process.
func (sc *c12Scenario) newInstance() (*bexpr.Evaluator, *bexpr.Filter, error) {
	return sc.newInstanceFor(0)
}

func (sc *c12Scenario) newInstanceFor(i int) (*bexpr.Evaluator, *bexpr.Filter, error) {
	n := atomic.AddInt64(&c12Unique, 1)
	src := sc.src
	if strings.Contains(src, "matches `") {
		parts := strings.Split(src, "`")
		for i := 1; i < len(parts); i += 2 {
			if strings.HasSuffix(strings.TrimRight(parts[i-1], " "), "matches") {
				parts[i] = parts[i] + fmt.Sprintf("|qq%dqq", n)
			}
		}
		src = strings.Join(parts, "`")
	}
	if sc.filter {
		f, err := bexpr.CreateFilter(src)
		return nil, f, err
	}
	opts := optsFor(sc.opts)
	if len(sc.budgets) > 0 {
		opts = append(opts, bexpr.WithMaxExpressions(sc.budgets[i%len(sc.budgets)]))
	}
	ev, err := bexpr.CreateEvaluator(src, opts...)
	return ev, nil, err
}

// c12DoNew: create instance number i and make one call on it; a failing creation is the call's outcome
func (sc *c12Scenario) c12DoNew(i int, d interface{}) c12Call {
	ev, flt, err := sc.newInstanceFor(i)
	if err != nil || (ev == nil && flt == nil) {
		return c12Call{vE, "creation failed"}
	}
	return c12Do(ev, flt, d)
}

func c12Do(ev *bexpr.Evaluator, flt *bexpr.Filter, d interface{}) c12Call {
	if flt != nil {
		out := execute(flt, d)
		switch {
		case out.panicked != "":
			return c12Call{-1, "PANIC " + out.panicked}
		case out.err != nil:
			return c12Call{vE, "error"}
		}
		return c12Call{vT, fmt.Sprintf("%v", out.res)}
	}
	o := observe(ev, d)
	return c12Call{cls3(o), o.String()}
}

func runC12(c *eng.Ctx) { c12RunScenarios(c, c12Scenarios(c.Thorough())) }

// c12BudgetScenarios: evaluators created CONCURRENTLY under different expression budgets (each creation must get its own budget:
// the tiny one fails, the huge one succeeds, whatever the interleaving). Used by C12 and, as the concurrency part of the budget
// property, by C11.
func c12BudgetScenarios() []c12Scenario {
	d := []interface{}{map[string]interface{}{"s": "aaa", "t": "b"}}
	return []c12Scenario{
		{name: "concurrent creation under different budgets 2x1", src: "s == `aaa` or t == `b`", create: true, threads: 2, ops: 1, data: d, bound: -1, budgets: []uint64{1, 1 << 40}},
		{name: "concurrent creation under different budgets 3x1", src: "s == `aaa` and not (t == `x`)", create: true, threads: 3, ops: 1, data: d, bound: 2, budgets: []uint64{1 << 40, 1, 0}},
		{name: "concurrent creation under different budgets 2x2", src: "t == `b`", create: true, threads: 2, ops: 2, data: d, bound: 2, budgets: []uint64{3, 1 << 40, 0, 5}},
	}
}

func c12RunScenarios(c *eng.Ctx, scs []c12Scenario) {
	limit := 150000
	if c.Thorough() {
		limit = 4000000
	}
	// No garbage collection while an execution runs: the allocator can then never hand a freed object's
	// address to another thread, so "same address" means "same object" in the access log (otherwise
	// short-lived per-call objects alias by address reuse and make harmless sites hot, which only costs
	// time but makes the amount of exploration depend on allocator timing). Collection happens between executions.
	oldGC := debug.SetGCPercent(-1)
	defer debug.SetGCPercent(oldGC)
	sinceGC := 0
	for si, sc := range scs {
		sc := sc
		if !c.Mine(si) || !c.Want("s", si) {
			continue
		}
		if c.Expired() {
			return
		}
		// sequential reference results on a fresh instance per call
		want := make([]c12Call, sc.threads*sc.ops)
		okSc := true
		for i := range want {
			if len(sc.budgets) > 0 {
				want[i] = sc.c12DoNew(i, sc.data[i%len(sc.data)])
				continue
			}
			ev, flt, err := sc.newInstance()
			if err != nil {
				c.Violate(eng.Violation{Kind: "harness-expression-rejected", Key: "create: " + sc.src, Detail: err.Error()})
				okSc = false
				break
			}
			want[i] = c12Do(ev, flt, sc.data[i%len(sc.data)])
		}
		if !okSc {
			continue
		}
		vrt.Hot = map[string]bool{}
		var wrong []string
		bodies := func() []func() {
			var ev *bexpr.Evaluator
			var flt *bexpr.Filter
			if !sc.create {
				ev, flt, _ = sc.newInstance()
				if sc.warm {
					for _, d := range sc.data {
						c12Do(ev, flt, d)
					}
				}
			}
			wrong = wrong[:0]
			var bs []func()
			for t := 0; t < sc.threads; t++ {
				t := t
				bs = append(bs, func() {
					e, f := ev, flt
					if sc.create && len(sc.budgets) == 0 {
						e, f, _ = sc.newInstance()
					}
					for k := 0; k < sc.ops; k++ {
						i := t*sc.ops + k
						var got c12Call
						if len(sc.budgets) > 0 {
							got = sc.c12DoNew(i, sc.data[i%len(sc.data)])
						} else {
							got = c12Do(e, f, sc.data[i%len(sc.data)])
						}
						if got.class != want[i].class || (sc.filter && got.sig != want[i].sig) {
							wrong = append(wrong, fmt.Sprintf("thread %d call %d on datum %d: got %s, sequentially %s", t, k, i%len(sc.data), got.sig, want[i].sig))
						}
					}
				})
			}
			return bs
		}
		key := fmt.Sprintf("scenario=%s | expr=%s", sc.name, sc.src)
		co := map[string]int{"s": si}
		reported := map[string]bool{}
		rounds := 0
		totalExecs := 0
		for {
			rounds++
			promotedAny := false
			pending := map[string]bool{}
			traces := map[string]bool{}
			execs, capped := vrt.Explore(sc.bound, limit, bodies, func(s *vrt.Sched) {
				if sinceGC++; sinceGC >= 256 {
					sinceGC = 0
					runtime.GC()
				}
				c.R.States++
				c.R.Transitions += int64(s.Ops)
				c.R.Traces++
				c.R.Evaluations += int64(sc.threads * sc.ops)
				if len(s.Points) > sc.threads {
					c.R.Nontrivial++
				}
				c.MaxOf("max_schedule_length", int64(len(s.Points)))
				if len(traces) < 5000 {
					traces[strings.Join(s.Trace, " ")] = true
				}
				for _, site := range s.Candidates() {
					pending[site] = true
				}
				report := func(kind, what, exp string) {
					k := kind + ": " + what
					if reported[k] {
						return
					}
					reported[k] = true
					// replay the recorded schedule twice: identical observations are required before the failure is believed
					r1 := vrt.Run(s.Choices, bodies())
					t1 := strings.Join(r1.Trace, " ")
					r2 := vrt.Run(s.Choices, bodies())
					t2 := strings.Join(r2.Trace, " ")
					if t1 != t2 || t1 != strings.Join(s.Trace, " ") {
						c.Note("schedule replay diverged for " + key + " (" + k + "); failure not reported")
						return
					}
					c.Violate(eng.Violation{Kind: kind, Key: key + " | " + what, Coords: co, Case: map[string]any{"scenario": sc.name, "expression": sc.src, "threads": sc.threads, "calls_per_thread": sc.ops, "schedule": s.Choices, "trace": s.Trace},
						Expected: exp, Observed: what})
				}
				for _, r := range s.Races {
					report("data-race", r.Desc, "no two threads with enabled conflicting plain accesses to one address")
				}
				for _, w := range wrong {
					report("result-differs-from-sequential", w, "every call returns its sequential result")
				}
				if s.Dead {
					report("deadlock", "no enabled thread while some thread has not finished", "progress")
				}
				for _, p := range s.Panics {
					report("panic-in-thread", p, "no panic")
				}
				if len(reported) >= 3 {
					// the scenario's verdict is decided; exploring the remaining schedules would only repeat it
					vrt.StopExploring = true
				}
			})
			totalExecs += execs
			for site := range pending {
				if !vrt.Hot[site] {
					vrt.Hot[site] = true
					promotedAny = true
					c.SetAdd("hot_sites", site)
				}
			}
			c.MaxOf("max_distinct_traces_in_a_round", int64(len(traces)))
			if capped {
				c.Cap(fmt.Sprintf("scenario %q: execution limit %d hit in round %d (preemption bound %d)", sc.name, limit, rounds, sc.bound))
				break
			}
			if !promotedAny || rounds > 6 || vrt.StopExploring {
				break
			}
		}
		c.Count(fmt.Sprintf("schedules[%s]", sc.name))
		c.R.Hist[fmt.Sprintf("schedules[%s]", sc.name)] = int64(totalExecs)
		if len(c.R.Samples) < 3 {
			var hot []string
			for h := range vrt.Hot {
				hot = append(hot, h)
			}
			sort.Strings(hot)
			c.Sample(map[string]any{"scenario": sc.name, "expression": sc.src, "threads": sc.threads, "calls_per_thread": sc.ops, "preemption_bound": sc.bound, "rounds": rounds, "schedules": totalExecs, "hot_sites": hot})
		}
	}
}

// c12Finalize runs the free-running -race complement (built by run.sh from the same scenario table).
func c12Finalize(tier string, r *eng.Result) { raceFinalize(tier, r, "C12", "") }

// c11Finalize: the concurrent-creation scenarios once more, free-running under the race detector (the parser's own state is not
// instrumented for the schedule explorer; a counter or option shared between parsers shows up here).
func c11Finalize(tier string, r *eng.Result) { raceFinalize(tier, r, "C11", "budget") }

func raceFinalize(tier string, r *eng.Result, prop, only string) {
	bin := os.Getenv("VERIF_RACECOMP")
	if bin == "" {
		r.Notes = append(r.Notes, "free-running -race complement not run (VERIF_RACECOMP unset)")
		return
	}
	cmd := exec.Command(bin, tier, only)
	cmd.Env = append(os.Environ(), "GORACE=halt_on_error=0 exitcode=66")
	out, err := cmd.CombinedOutput()
	text := string(out)
	if strings.Contains(text, "WARNING: DATA RACE") || strings.Contains(text, "fatal error: concurrent map") {
		i := strings.Index(text, "WARNING: DATA RACE")
		if i < 0 {
			i = strings.Index(text, "fatal error:")
		}
		rep := text[i:]
		if len(rep) > 2500 {
			rep = rep[:2500]
		}
		r.ViolationCount++
		r.Violations = append(r.Violations, eng.Violation{Property: prop, Tier: tier, Kind: "race-detector-report", Key: "free-running -race complement: " + firstRaceLine(rep), Detail: rep})
		return
	}
	if strings.Contains(text, "RESULT-MISMATCH") {
		r.ViolationCount++
		r.Violations = append(r.Violations, eng.Violation{Property: prop, Tier: tier, Kind: "free-running-result-differs", Key: "free-running complement: " + firstLine(text[strings.Index(text, "RESULT-MISMATCH"):])})
		return
	}
	if err != nil {
		r.Notes = append(r.Notes, "free-running -race complement ended abnormally: "+err.Error()+": "+trunc(text, 300))
		return
	}
	r.Notes = append(r.Notes, "free-running -race complement: "+strings.TrimSpace(lastLine(text)))
}

func firstRaceLine(rep string) string {
	for _, ln := range strings.Split(rep, "\n") {
		if strings.Contains(ln, "go-bexpr") || strings.Contains(ln, "/repo/") {
			return strings.TrimSpace(ln)
		}
	}
	return firstLine(rep)
}

func lastLine(s string) string {
	s = strings.TrimSpace(s)
	if i := strings.LastIndex(s, "\n"); i >= 0 {
		return s[i+1:]
	}
	return s
}

// RaceComplement runs the scenario bodies free-running (real goroutines behind a start barrier, fresh
// instance per round). It is meant to be built with -race and WITHOUT the rewriting overlay.
func RaceComplement(tier string) string { return RaceComplementOf(tier, "") }

// RaceComplementOf: only == "budget" restricts the run to the concurrent-creation scenarios (C11's share of the table).
func RaceComplementOf(tier, only string) string {
	rounds := 150
	if tier == "thorough" {
		rounds = 1500
	}
	calls := 0
	scs := c12Scenarios(tier == "thorough")
	if only == "budget" {
		scs = c12BudgetScenarios()
		rounds *= 4
	}
	for _, sc := range scs {
		n := sc.threads * sc.ops
		want := make([]c12Call, n)
		for i := range want {
			if len(sc.budgets) > 0 {
				want[i] = sc.c12DoNew(i, sc.data[i%len(sc.data)])
				continue
			}
			ev, flt, err := sc.newInstance()
			if err != nil {
				continue
			}
			want[i] = c12Do(ev, flt, sc.data[i%len(sc.data)])
		}
		g := sc.threads
		if g < 8 {
			g = 8
		}
		for r := 0; r < rounds; r++ {
			ev, flt, err := sc.newInstance()
			if err != nil && len(sc.budgets) == 0 {
				break
			}
			if sc.warm {
				for _, d := range sc.data {
					c12Do(ev, flt, d)
				}
			}
			start := make(chan struct{})
			done := make(chan string, g)
			for t := 0; t < g; t++ {
				t := t
				go func() {
					<-start
					e, f := ev, flt
					if sc.create && len(sc.budgets) == 0 {
						e, f, _ = sc.newInstance()
					}
					msg := ""
					for k := 0; k < sc.ops; k++ {
						i := (t*sc.ops + k) % n
						var got c12Call
						if len(sc.budgets) > 0 {
							got = sc.c12DoNew(i, sc.data[i%len(sc.data)])
						} else {
							got = c12Do(e, f, sc.data[i%len(sc.data)])
						}
						if got.class != want[i].class || (sc.filter && got.sig != want[i].sig) {
							msg = fmt.Sprintf("RESULT-MISMATCH scenario=%q: got %s, sequentially %s", sc.name, got.sig, want[i].sig)
						}
					}
					done <- msg
				}()
			}
			close(start)
			for t := 0; t < g; t++ {
				if m := <-done; m != "" {
					fmt.Println(m)
				}
				calls += sc.ops
			}
		}
	}
	return fmt.Sprintf("%d scenarios x %d rounds, %d concurrent calls, no race reported", len(scs), rounds, calls)
}
