package checks

import (
	bexpr "github.com/hashicorp/go-bexpr"

	"verifmc/eng"
	. "verifmc/model"
)

func init() {
	eng.Register(&eng.Check{
		ID:          "C05",
		Rule:        "E1 bounded product over configurations: selector paths of depth 1-4 with the missing step at leaf / intermediate / root under parents of every kind (string-keyed and other maps, interface- and pointer-wrapped, struct, slice, scalar), directly and through quantifier value aliases x 8 operators + any/all x unknown-value settings {none, int 0, int 1, json.Number 1e3, \"\", \"a\", true, 1.5} x hook {none, unwrap-wrapper (values behind a wrapper struct at parent and leaf positions)}; oracles: (a,b) reference interpreter (absent-key table, error cases); (c) two-run: Evaluate(e,d,unknown=v) == Evaluate(e,d+) where d+ is d with v inserted at the absent path (when the absent step is under a map[string]interface{}); (d) when the reference sees no absent key/field, the outcome is identical with and without an unknown value. Distinct by construction; non-trivial = the reference met an absent key/field (NOTFOUND) in the case.",
		Assumptions: []string{"reference interpreter as in C01", "unknown values drawn from scalar kinds (non-scalar unknown values are outside the universe)"},
		Run:         runC05,
	})
}

func c05Docs(thorough bool) []*Node {
	mp := func(kv ...*Node) *Node { return NMap(TStr, TAny, kv...) }
	inner := []*Node{
		mp(), mp(str("a"), one), mp(str("a"), one, str("b"), str("a")), mp(str("c"), one), mp(str("a"), NNilAny()),
		NMap(TStr, TInt, str("a"), one), NMap(TStr, TStr, str("a"), str("a")), NMap(TStr, TInt),
		NMap(TInt, TInt, NInt(KInt, false, 0), one), NMap(Sc(KString, true), TInt, NStr(true, "a"), one), NMap(TAny, TAny, str("a"), one),
		NStruct(F{Name: "A", Tag: `bexpr:"a"`, V: one}, F{Name: "B", V: str("a")}),
		NStruct(F{Name: "A", Tag: `bexpr:"a"`, V: NAny(mp(str("a"), one))}, F{Name: "H", Tag: `bexpr:"-"`, V: one}, F{Name: "c", Unexp: true, V: one}),
		NSlice(TAny, one, str("a")), NSlice(TAny), NSlice(TInt, one), NSlice(TAny, mp(str("a"), one), mp()),
		one, str("a"), NNilAny(), NNilPtr(TInt),
	}
	var mids []*Node
	mids = append(mids, inner...)
	for _, in := range inner {
		mids = append(mids, mp(str("a"), in), mp(str("b"), in), NPtr(mp(str("a"), in)), NSlice(TAny, in), NStruct(F{Name: "A", Tag: `bexpr:"a"`, V: in}),
			NMap(TStr, in.T, str("a"), in))
		if thorough {
			mids = append(mids, mp(str("a"), mp(str("a"), in)), mp(str("a"), NSlice(TAny, in, in)), NPtr(NStruct(F{Name: "A", Tag: `bexpr:"a"`, V: NPtr(in)})), mp(str("a"), NPtr(in)), mp(str("a"), in, str("c"), one))
		}
	}
	var out []*Node
	for _, m := range mids {
		out = append(out, mp(str("a"), m), NStruct(F{Name: "A", Tag: `bexpr:"a"`, V: m}))
		if thorough {
			out = append(out, NPtr(mp(str("a"), m)), mp(str("a"), m, str("c"), str("a")))
		}
	}
	// values behind the wrapper struct the unwrap hook recognises (only meaningful under that hook)
	for _, in := range inner {
		out = append(out, mp(str("a"), NWrapper(in)), mp(str("a"), mp(str("a"), NWrapper(in))), mp(str("a"), NSlice(TAny, NWrapper(in))))
	}
	// shapes for the nested re-binding quantifiers: a -> list/map of {a: list/map of maps}
	leafMaps := []*Node{mp(str("a"), one), mp(), mp(str("c"), one)}
	for _, l1 := range leafMaps {
		for _, l2 := range leafMaps {
			innerList := NSlice(TAny, l1, l2)
			out = append(out, mp(str("a"), NSlice(TAny, mp(str("a"), innerList))), mp(str("a"), mp(str("k"), mp(str("a"), innerList))),
				mp(str("a"), NSlice(TAny, mp(str("a"), NSlice(TAny, mp(str("a"), innerList))))))
		}
	}
	// maps whose KEYS contain "/" or "~" iterated with a value binding (the alias path carries the key as a part)
	for _, in := range []*Node{mp(str("a"), one), mp(), one} {
		out = append(out, mp(str("a"), mp(str("x/y"), in, str("p~q"), in, str("~1"), in)), mp(str("a"), mp(str("a"), mp(str("app.io/name"), in, str("plain"), in))))
	}
	out = append(out, mp(), mp(str("c"), one))
	return out
}

func c05Exprs(thorough bool) []any {
	parts := []string{"a", "c", "0", "2"}
	var sels [][]string
	var rec func(p []string, depth int)
	maxd := 3
	if thorough {
		maxd = 4
	}
	rec = func(p []string, depth int) {
		if len(p) > 0 {
			sels = append(sels, append([]string{}, p...))
		}
		if depth == maxd {
			return
		}
		for _, x := range parts {
			if len(p) == 0 && (x == "0" || x == "2") {
				continue
			}
			rec(append(p, x), depth+1)
		}
	}
	rec(nil, 0)
	ls := []string{"1", "a", "", "true"}
	if thorough {
		ls = append(ls, "0", "1.5", "b")
	}
	out := matchExprs(sels, ls)
	// keys that contain the separator / escape characters of the JSON-pointer spelling, present and absent ones, in the pointer
	// spelling and in the bracket spelling (a key that IS the text "~1" is spelled ~01 in a pointer)
	for _, s := range [][]string{{"a", "~1"}, {"a", "x/y"}, {"a", "p~q"}, {"a", "/"}, {"a", "x~1y"}, {"a", "~0"}, {"a", "a", "app.io/name"}, {"a", "a", "app.io~1name"}, {"a", "x/y", "c"}} {
		for _, m := range matchExprs([][]string{s}, []string{"1"}) {
			mm := *(m.(*Match))
			mm.JP = true
			out = append(out, m, &mm)
		}
	}
	// quantifiers over possibly absent collections, and value aliases whose sub-paths are absent
	for _, s := range sels {
		if len(s) > 3 {
			continue
		}
		for _, all := range []bool{false, true} {
			out = append(out,
				&Quant{All: all, Sel: s, Mode: BindDefault, Val: "x", Body: &Match{Sel: []string{"x"}, Op: OpEq, Lit: "1"}},
				&Quant{All: all, Sel: s, Mode: BindValue, Val: "x", Body: &Match{Sel: []string{"x", "c"}, Op: OpEq, Lit: "1"}},
				&Quant{All: all, Sel: s, Mode: BindValue, Val: "x", Body: &Match{Sel: []string{"x", "c"}, Op: OpEmpty}},
				&Quant{All: all, Sel: s, Mode: BindBoth, Idx: "k", Val: "x", Body: &Match{Sel: []string{"x", "a", "c"}, Op: OpNe, Lit: "1"}},
			)
		}
	}
	// nested quantifiers that re-bind the outer name (aliases are rewritten through the binding stack): absent leaves
	// below the inner alias must still follow the table / unknown value
	for _, all := range []bool{false, true} {
		for _, leaf := range []string{"c", "a"} {
			inner := &Quant{All: all, Sel: []string{"x", "a"}, Mode: BindDefault, Val: "x", Body: &Match{Sel: []string{"x", leaf}, Op: OpNe, Lit: "1"}}
			out = append(out, &Quant{All: all, Sel: []string{"a"}, Mode: BindValue, Val: "x", Body: inner})
			inner2 := &Quant{All: !all, Sel: []string{"x", "a"}, Mode: BindValue, Val: "y", Body: &Quant{All: all, Sel: []string{"y", "a"}, Mode: BindBoth, Idx: "i", Val: "x", Body: &Match{Sel: []string{"x", leaf}, Op: OpEmpty}}}
			out = append(out, &Quant{All: all, Sel: []string{"a"}, Mode: BindBoth, Idx: "i", Val: "x", Body: inner2})
		}
	}
	return out
}

// insertAbsent returns d with v inserted at the first absent step of path (as a
// chain of map[string]interface{} for the remaining parts) if that step is under a
// map[string]interface{}; ok=false when the path is not "absent under such a map".
func insertAbsent(n *Node, path []string, v *Node) (*Node, bool) {
	if len(path) == 0 {
		return nil, false
	}
	switch n.T.K {
	case KIface, KPtr:
		if n.Nil {
			return nil, false
		}
		in, ok := insertAbsent(n.Items[0], path, v)
		if !ok {
			return nil, false
		}
		if n.T.K == KIface {
			return NAny(in), true
		}
		if in.T.String() != n.T.Elem.String() {
			return nil, false
		}
		return NPtr(in), true
	case KMap:
		if n.T.Key.K != KString || n.T.Key.Named {
			return nil, false
		}
		for i, k := range n.Keys {
			if k.S == path[0] {
				if len(path) == 1 {
					return nil, false // present
				}
				in, ok := insertAbsent(n.Items[i], path[1:], v)
				if !ok || (n.T.Elem.K != KIface && in.T.String() != n.T.Elem.String()) {
					return nil, false
				}
				cp := &Node{T: n.T, Keys: n.Keys, Items: append([]*Node{}, n.Items...)}
				if n.T.Elem.K == KIface {
					in = NAny(in)
				}
				cp.Items[i] = in
				return cp, true
			}
		}
		if n.T.Elem.K != KIface {
			return nil, false
		}
		val := v
		for i := len(path) - 1; i >= 1; i-- {
			val = NMap(TStr, TAny, str(path[i]), val)
		}
		cp := &Node{T: n.T, Keys: append(append([]*Node{}, n.Keys...), str(path[0])), Items: append(append([]*Node{}, n.Items...), NAny(val))}
		return cp, true
	case KStruct:
		for i, f := range n.T.Fields {
			if f.Exported && f.Tag == `bexpr:"`+path[0]+`"` && len(path) > 1 {
				in, ok := insertAbsent(n.Items[i], path[1:], v)
				if !ok || (f.T.K != KIface && in.T.String() != f.T.String()) {
					return nil, false
				}
				if f.T.K == KIface {
					in = NAny(in)
				}
				cp := &Node{T: n.T, Items: append([]*Node{}, n.Items...)}
				cp.Items[i] = in
				return cp, true
			}
		}
	}
	return nil, false
}

func runC05(c *eng.Ctx) {
	es := c05Exprs(c.Thorough())
	ds := c05Docs(c.Thorough())
	data := make([]interface{}, len(ds))
	for i, d := range ds {
		data[i] = Build(d).Interface()
	}
	// a json.Number unknown value is a NUMBER, exactly as it is when a document holds it (position 3: inside the quick tier of both passes)
	unknowns := []*Node{nil, NInt(KInt, false, 0), one, NJSON("1e3"), str(""), str("a"), NBool(false, true), NFloat(KFloat64, false, 1.5)}
	c.MaxOf("expressions", int64(len(es)))
	c.MaxOf("documents", int64(len(ds)))
	base := make([]obsT, len(ds))
	for ei, e := range es {
		if !c.Mine(ei) || !c.Want("e", ei) {
			continue
		}
		if c.Expired() {
			return
		}
		src := Render(e)
		m, isMatch := e.(*Match)
		for ui := 0; ui < 2*len(unknowns); ui++ {
			u := unknowns[ui%len(unknowns)]
			hook := HookNone
			if ui >= len(unknowns) {
				hook = HookUnwrap // second pass: the same unknown-value settings under the unwrap hook
				if !c.Thorough() && ui%len(unknowns) > 3 {
					continue
				}
			}
			if !c.Want("u", ui) && ui%len(unknowns) != 0 {
				continue
			}
			cfg := Cfg{Tag: "bexpr", Unknown: u, Hook: hook}
			ev, err := createWith(src, cfg)
			if err != nil {
				c.Violate(eng.Violation{Kind: "harness-expression-rejected", Key: "create: " + src, Detail: err.Error()})
				break
			}
			var plain *bexpr.Evaluator
			if u != nil {
				plain, _ = createWith(src, Cfg{Tag: "bexpr", Hook: hook})
			}
			for di, d := range ds {
				if !c.Want("d", di) {
					continue
				}
				rf := NewRef(d, cfg)
				want := rf.Eval(e, nil)
				got := observe(ev, data[di])
				c.R.Evaluations++
				c.R.Traces++
				c.R.States++
				co := map[string]int{"e": ei, "u": ui, "d": di}
				if u == nil {
					base[di] = got
				}
				if rf.NotFound > 0 {
					c.R.Nontrivial++
				}
				if got.panicked || got.class&want == 0 {
					c.Violate(eng.Violation{Kind: "reference-mismatch", Key: caseKey(src, d, cfg), Coords: co, Case: describe(src, d, cfg), Expected: SetStr(want), Observed: got.String(), Detail: got.msg})
					continue
				}
				if rf.NotPresent > 0 {
					c.Count("absent-key-table")
				}
				if u == nil {
					continue
				}
				// (d) no absent key/field anywhere => the unknown value must not matter
				if rf.NotFound == 0 {
					if c.Replaying() {
						base[di] = observe(plain, data[di])
					}
					if cls3(base[di]) != cls3(got) {
						c.Violate(eng.Violation{Kind: "unknown-value-changes-resolving-expression", Key: caseKey(src, d, cfg), Coords: co, Case: describe(src, d, cfg),
							Expected: base[di].String() + " (outcome without unknown value)", Observed: got.String()})
					}
					c.Count("all-selectors-resolve")
					continue
				}
				// (c) two-run: as if the absent path resolved to v
				if isMatch {
					if dp, ok := insertAbsent(d, m.Sel, u); ok {
						g2 := observe(plain, Build(dp).Interface())
						c.R.Evaluations++
						c.Count("two-run-insertion")
						if cls3(g2) != cls3(got) {
							c.Violate(eng.Violation{Kind: "unknown-value-differs-from-inserted-value", Key: caseKey(src, d, cfg), Coords: co, Case: describe(src, d, cfg),
								Expected: g2.String() + " (Evaluate on " + dp.String() + ")", Observed: got.String()})
						}
					}
				}
			}
		}
		c.Sample(map[string]any{"expression": src, "unknown_values": len(unknowns), "documents": len(ds)})
	}
}
