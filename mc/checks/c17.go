package checks

import (
	"fmt"
	"reflect"
	"sort"

	bexpr "github.com/hashicorp/go-bexpr"

	"verifmc/eng"
	"verifmc/model"
)

func init() {
	eng.Register(&eng.Check{
		ID:          "C17",
		Rule:        "E1 bounded product for Filter.Execute: container shapes ([]T, named slice type, [N]T, map[K]T for K in {string,int,named string,bool,interface{} with keys that print alike}; nil and empty containers) over element kinds (struct, *struct incl. nil, map[string]interface{}, interface{}, struct with typed + hidden fields incl. the all-zero element) of length 0..4 (thorough 0..5) with EVERY assignment of three element values, plus lengths 8, 9, 17, 33 with selected patterns, (evaluating to T / F / error for `f == 1`) x 30 filter expressions; oracle against the implementation's own element-wise Evaluate: result type (same slice type, []Elem for arrays, same map type), kept elements in original order / kept keys, first evaluation error => (nil, err), input unchanged (deep comparison with an identically built twin), fresh backing storage, a nil Filter (literal nil and the one CreateFilter(\"\") returns) returns its input unchanged for containers AND for every non-container input, idempotence, E / not(E) partition when no element errs; ONE Filter executed over all container types x element kinds in sequence (forward and reverse) must answer like a fresh Filter each time; non-containers (nil, int, string, struct, pointer to slice, chan, func) => error, never panic. Distinct by construction; non-trivial = container with >=1 element.",
		Assumptions: []string{"differential against Evaluate on the same tree (Evaluate itself is C01's business)", "bounded container sizes and element alphabet"},
		Run:         runC17,
	})
}

type fS struct {
	F interface{} `bexpr:"f"`
	g int
}
type fSlice []fS
type fKey string

// fZ: typed visible field + hidden and unexported fields; the zero value is a legitimate element
type fZ struct {
	X int    `bexpr:"f"`
	H string `bexpr:"-"`
	u int
}

var c17Exprs = []string{
	"f == 1", "f != 1", "not (f == 1)", "f == 1 or f == 2", "f == 1 and f != 2", "f is empty", "f is not empty", "1 in f", "1 not in f", "f matches `1`", "f not matches `1`",
	"f == 2", "f == `x`", "zz == 1", "f.a == 1", "f == 1 or zz == 1", "f != 1 and zz == 1", "not (f != 1)", "f == true", "f == 1.0",
	"any f as x { x == 1 }", "all f as x { x == 1 }", "f == 1 or f is empty", "(f == 1)", "not not (f == 1)", "f == `0x1`", "f contains 1", "`1` in f or f == 2", "f != 2 and f != 1", "f == 3 or not (f == 2)",
}

// element values per element kind: index 0/1/2 = T/F/E for `f == 1`
func c17Elems(kind int) [3]reflect.Value {
	switch kind {
	case 0: // struct
		return [3]reflect.Value{reflect.ValueOf(fS{F: 1, g: 7}), reflect.ValueOf(fS{F: 2, g: 8}), reflect.ValueOf(fS{F: nil, g: 9})}
	case 1: // *struct (nil pointer is the erroring element)
		return [3]reflect.Value{reflect.ValueOf(&fS{F: 1}), reflect.ValueOf(&fS{F: 2}), reflect.ValueOf((*fS)(nil))}
	case 2: // map
		return [3]reflect.Value{reflect.ValueOf(map[string]interface{}{"f": 1}), reflect.ValueOf(map[string]interface{}{"f": 2}), reflect.ValueOf(map[string]interface{}{"f": []int{1}})}
	case 4: // struct with typed fields: T, F, and the all-zero element (true for `f != 1`, `f == 0`, `not (f == 1)` ...)
		return [3]reflect.Value{reflect.ValueOf(fZ{X: 1, H: "h", u: 1}), reflect.ValueOf(fZ{X: 2}), reflect.ValueOf(fZ{})}
	case 5: // same, hidden content only
		return [3]reflect.Value{reflect.ValueOf(fZ{X: 1}), reflect.ValueOf(fZ{H: "only hidden"}), reflect.ValueOf(fZ{u: 7})}
	default: // interface{} holding a map / struct / nil
		mk := func(x interface{}) reflect.Value {
			v := reflect.New(reflect.TypeOf((*interface{})(nil)).Elem()).Elem()
			if x != nil {
				v.Set(reflect.ValueOf(x))
			}
			return v
		}
		return [3]reflect.Value{mk(map[string]interface{}{"f": "1"}), mk(fS{F: uint8(2)}), mk(nil)}
	}
}

var c17ElemNames = []string{"struct", "*struct", "map[string]interface{}", "interface{}", "struct(typed fields, zero element)", "struct(hidden content only)"}

type c17Container struct {
	name string
	// build makes the container from element codes; twin call must give an equal, independent container
	build func(kind int, pat []int) reflect.Value
	isMap bool
	isArr bool
}

func c17Containers() []c17Container {
	elemT := func(kind int) reflect.Type { return c17Elems(kind)[0].Type() }
	mkSlice := func(t reflect.Type, kind int, pat []int) reflect.Value {
		s := reflect.MakeSlice(t, 0, len(pat))
		es := c17Elems(kind)
		for _, p := range pat {
			s = reflect.Append(s, es[p])
		}
		return s
	}
	ifaceKeys := []interface{}{1, "1", int64(1), true, "true", uint8(1), 1.0}
	keyOf := func(kt reflect.Type, i int) reflect.Value {
		switch kt.Kind() {
		case reflect.Interface:
			v := reflect.New(kt).Elem()
			v.Set(reflect.ValueOf(ifaceKeys[i%len(ifaceKeys)]))
			return v
		case reflect.String:
			return reflect.ValueOf(fmt.Sprintf("k%d", i)).Convert(kt)
		case reflect.Int:
			return reflect.ValueOf(i)
		default:
			return reflect.ValueOf(i == 1)
		}
	}
	mkMap := func(kt reflect.Type) func(kind int, pat []int) reflect.Value {
		return func(kind int, pat []int) reflect.Value {
			m := reflect.MakeMap(reflect.MapOf(kt, elemT(kind)))
			es := c17Elems(kind)
			for i, p := range pat {
				m.SetMapIndex(keyOf(kt, i), es[p])
			}
			return m
		}
	}
	return []c17Container{
		{name: "[]T", build: func(kind int, pat []int) reflect.Value { return mkSlice(reflect.SliceOf(elemT(kind)), kind, pat) }},
		{name: "[]T with spare capacity", build: func(kind int, pat []int) reflect.Value {
			s := mkSlice(reflect.SliceOf(elemT(kind)), kind, append(append([]int{}, pat...), 0, 0))
			return s.Slice(0, len(pat))
		}},
		{name: "named slice", build: func(kind int, pat []int) reflect.Value {
			if kind != 0 {
				return reflect.Value{}
			}
			return mkSlice(reflect.TypeOf(fSlice{}), kind, pat)
		}},
		{name: "[N]T", isArr: true, build: func(kind int, pat []int) reflect.Value {
			a := reflect.New(reflect.ArrayOf(len(pat), elemT(kind))).Elem()
			es := c17Elems(kind)
			for i, p := range pat {
				a.Index(i).Set(es[p])
			}
			return a
		}},
		{name: "map[string]T", isMap: true, build: mkMap(reflect.TypeOf(""))},
		{name: "map[int]T", isMap: true, build: mkMap(reflect.TypeOf(0))},
		{name: "map[named string]T", isMap: true, build: mkMap(reflect.TypeOf(fKey("")))},
		{name: "map[interface{}]T (keys that print alike: 1, \"1\", int64(1), true, \"true\", uint8(1), 1.0)", isMap: true, build: mkMap(reflect.TypeOf((*interface{})(nil)).Elem())},
		{name: "map[bool]T", isMap: true, build: func(kind int, pat []int) reflect.Value {
			if len(pat) > 2 {
				return reflect.Value{}
			}
			return mkMap(reflect.TypeOf(true))(kind, pat)
		}},
	}
}

type execOut struct {
	res      interface{}
	err      error
	panicked string
}

func execute(f *bexpr.Filter, data interface{}) (o execOut) {
	eng.CallBegin(f, data)
	defer func() {
		eng.CallEnd()
		if r := recover(); r != nil {
			o = execOut{panicked: fmt.Sprint(r)}
		}
	}()
	res, err := f.Execute(data)
	return execOut{res: res, err: err}
}

func sameElem(a, b reflect.Value) bool {
	if a.Kind() == reflect.Ptr && b.Kind() == reflect.Ptr {
		return a.Pointer() == b.Pointer()
	}
	return reflect.DeepEqual(a.Interface(), b.Interface())
}

func runC17(c *eng.Ctx) {
	maxLen := 4
	if c.Thorough() {
		maxLen = 5
	}
	pats := patterns(3, maxLen)
	for _, n := range []int{8, 9, 17, 33} {
		mk := func(fill int, at map[int]int) []int {
			p := make([]int, n)
			for i := range p {
				p[i] = fill
				if v, ok := at[i]; ok {
					p[i] = v
				}
			}
			return p
		}
		pats = append(pats, mk(0, nil), mk(1, nil), mk(1, map[int]int{0: 0, n - 1: 0}), mk(0, map[int]int{1: 1, n / 2: 1}), mk(0, map[int]int{n - 1: 2}), mk(1, map[int]int{0: 0, 2: 0, 4: 0, n - 2: 0}))
	}
	conts := c17Containers()
	unit := 0
	for xi, src := range c17Exprs {
		flt, err := bexpr.CreateFilter(src)
		ev, err2 := bexpr.CreateEvaluator(src)
		nflt, err3 := bexpr.CreateFilter("not (" + src + ")")
		if err != nil || err2 != nil || err3 != nil || flt == nil {
			if c.Mine(0) {
				c.Violate(eng.Violation{Kind: "harness-expression-rejected", Key: "create: " + src})
			}
			continue
		}
		for ci, ct := range conts {
			for kind := 0; kind < 6; kind++ {
				unit++
				if !c.Mine(unit) || !c.Want("x", xi) || !c.Want("c", ci) || !c.Want("k", kind) {
					continue
				}
				if c.Expired() {
					return
				}
				for pi, pat := range pats {
					if !c.Want("p", pi) {
						continue
					}
					in := ct.build(kind, pat)
					twin := ct.build(kind, pat)
					if !in.IsValid() {
						continue
					}
					co := map[string]int{"x": xi, "c": ci, "k": kind, "p": pi}
					key := fmt.Sprintf("filter=%s | container=%s of %s | pattern=%v", src, ct.name, c17ElemNames[kind], pat)
					bad := func(kindS, exp, obs string) {
						c.Violate(eng.Violation{Kind: kindS, Key: key, Coords: co, Expected: exp, Observed: obs})
					}
					c.R.States++
					c.R.Traces++
					if len(pat) > 0 {
						c.R.Nontrivial++
					}
					// element-wise Evaluate (keys in sorted order for maps)
					type el struct {
						key reflect.Value
						val reflect.Value
						o   obsT
					}
					var els []el
					if ct.isMap {
						keys := in.MapKeys()
						sort.Slice(keys, func(i, j int) bool {
							return fmt.Sprintf("%T%v", keys[i].Interface(), keys[i]) < fmt.Sprintf("%T%v", keys[j].Interface(), keys[j])
						})
						for _, k := range keys {
							els = append(els, el{key: k, val: in.MapIndex(k)})
						}
					} else {
						for i := 0; i < in.Len(); i++ {
							els = append(els, el{val: in.Index(i)})
						}
					}
					anyErr := false
					for i := range els {
						els[i].o = observe(ev, els[i].val.Interface())
						c.R.Evaluations++
						if els[i].o.class == model.E || els[i].o.panicked {
							anyErr = true
						}
					}
					out := execute(flt, in.Interface())
					c.R.Evaluations++
					if out.panicked != "" {
						bad("panic", "no panic", out.panicked)
						continue
					}
					// input unchanged
					if !reflect.DeepEqual(in.Interface(), twin.Interface()) {
						bad("input-modified", fmt.Sprintf("%#v", twin.Interface()), fmt.Sprintf("%#v", in.Interface()))
					}
					if anyErr {
						if out.err == nil || out.res != nil {
							bad("erroring-element-not-reported", "(nil, err)", fmt.Sprintf("(%#v, %v)", out.res, out.err))
						} else {
							c.Count("error")
						}
						continue
					}
					if out.err != nil {
						bad("unexpected-error", "no error", out.err.Error())
						continue
					}
					rv := reflect.ValueOf(out.res)
					wantT := in.Type()
					if ct.isArr {
						wantT = reflect.SliceOf(in.Type().Elem())
					}
					if !rv.IsValid() || rv.Type() != wantT {
						bad("result-type", wantT.String(), fmt.Sprintf("%T", out.res))
						continue
					}
					// kept elements
					var keptIdx []int
					for i, e := range els {
						if e.o.class == model.T {
							keptIdx = append(keptIdx, i)
						}
					}
					okSel := rv.Len() == len(keptIdx)
					if okSel {
						for j, i := range keptIdx {
							if ct.isMap {
								got := rv.MapIndex(els[i].key)
								okSel = okSel && got.IsValid() && sameElem(got, els[i].val)
							} else {
								okSel = okSel && sameElem(rv.Index(j), els[i].val)
							}
						}
					}
					if !okSel {
						bad("selection", fmt.Sprintf("elements %v of %#v", keptIdx, in.Interface()), fmt.Sprintf("%#v", out.res))
						continue
					}
					c.Count(fmt.Sprintf("kept=%d/%d", len(keptIdx), len(els)))
					// fresh storage: the result must not live in the input's backing array (including its spare capacity)
					if in.Kind() == reflect.Slice && in.Cap() > 0 && rv.Cap() > 0 {
						sz := in.Type().Elem().Size()
						lo, hi := in.Pointer(), in.Pointer()+uintptr(in.Cap())*sz
						if p := rv.Pointer(); sz > 0 && p >= lo && p < hi {
							bad("result-aliases-input", "a new slice", "result stored inside the input's backing array")
						}
					}
					if ct.isMap && in.Len() > 0 && rv.Pointer() == in.Pointer() {
						bad("result-aliases-input", "a new map", "the input map itself")
					}
					// idempotence
					out2 := execute(flt, out.res)
					c.R.Evaluations++
					if out2.panicked != "" || out2.err != nil || !reflect.DeepEqual(out2.res, out.res) {
						bad("not-idempotent", fmt.Sprintf("%#v", out.res), fmt.Sprintf("%#v %v %s", out2.res, out2.err, out2.panicked))
					}
					// partition with not(E)
					nout := execute(nflt, in.Interface())
					c.R.Evaluations++
					if nout.panicked != "" || nout.err != nil || reflect.ValueOf(nout.res).Len()+rv.Len() != len(els) {
						bad("not-a-partition", fmt.Sprintf("%d elements in E plus not(E)", len(els)), fmt.Sprintf("%d + %v (err=%v %s)", rv.Len(), nout.res, nout.err, nout.panicked))
					}
					// nil filter returns its input
					var nilF *bexpr.Filter
					nres := execute(nilF, in.Interface())
					if nres.panicked != "" || nres.err != nil || !reflect.DeepEqual(nres.res, in.Interface()) {
						bad("nil-filter", "input unchanged", fmt.Sprintf("%#v %v %s", nres.res, nres.err, nres.panicked))
					}
					if len(c.R.Samples) < 3 && len(pat) == maxLen {
						c.Sample(map[string]any{"filter": src, "container": ct.name, "element": c17ElemNames[kind], "pattern": pat, "kept": keptIdx})
					}
				}
				// nil containers
				if !ct.isArr {
					z := ct.build(kind, nil)
					if z.IsValid() {
						nilC := reflect.Zero(z.Type())
						out := execute(flt, nilC.Interface())
						c.R.Evaluations++
						c.R.States++
						if out.panicked != "" || out.err != nil || reflect.TypeOf(out.res) != z.Type() || reflect.ValueOf(out.res).Len() != 0 {
							c.Violate(eng.Violation{Kind: "nil-container", Key: fmt.Sprintf("filter=%s | nil %s of %s", src, ct.name, c17ElemNames[kind]), Coords: map[string]int{"x": xi, "c": ci, "k": kind, "p": -1},
								Expected: "empty " + z.Type().String(), Observed: fmt.Sprintf("%#v %v %s", out.res, out.err, out.panicked)})
						}
					}
				}
			}
		}
		// ONE Filter over containers of different Go types in sequence (workers see only a slice of the (container, kind) units above, so
		// this is the place where an array of a second element type, a map after a slice ... meets a Filter that has history): every
		// result must equal the result of a freshly created Filter, in forward and in reverse order
		if c.Mine(xi) && c.Want("c", -2) {
			type inp struct {
				name string
				v    reflect.Value
			}
			var ins []inp
			for _, ct := range conts {
				for kind := 0; kind < 6; kind++ {
					for _, pat := range [][]int{{vT, vF, vT}, {vF}} {
						if v := ct.build(kind, pat); v.IsValid() {
							ins = append(ins, inp{fmt.Sprintf("%s of %s %v", ct.name, c17ElemNames[kind], pat), v})
						}
					}
				}
			}
			sig := func(o execOut) string {
				switch {
				case o.panicked != "":
					return "PANIC " + o.panicked
				case o.err != nil:
					return "error"
				}
				return fmt.Sprintf("%T len=%d %v", o.res, reflect.ValueOf(o.res).Len(), o.res)
			}
			fresh := make([]string, len(ins))
			for i, in := range ins {
				f2, _ := bexpr.CreateFilter(src)
				fresh[i] = sig(execute(f2, in.v.Interface()))
				c.R.Evaluations++
			}
			for dir := 0; dir < 2; dir++ {
				shared, _ := bexpr.CreateFilter(src)
				for j := range ins {
					i := j
					if dir == 1 {
						i = len(ins) - 1 - j
					}
					got := sig(execute(shared, ins[i].v.Interface()))
					c.R.Evaluations++
					c.R.States++
					c.R.Traces++
					c.R.Nontrivial++
					if got != fresh[i] {
						c.Violate(eng.Violation{Kind: "filter-result-depends-on-earlier-executions", Key: fmt.Sprintf("filter=%s | input #%d (%s) in direction %d", src, i, ins[i].name, dir), Coords: map[string]int{"x": xi, "c": -2},
							Expected: fresh[i] + " (fresh Filter)", Observed: got})
						break
					}
				}
			}
			c.Count("one-filter-many-container-types")
		}
		// non-containers
		if c.Mine(xi) && c.Want("c", -1) {
			sl := []int{1}
			non := []interface{}{nil, 1, "a", fS{F: 1}, &sl, make(chan int), func() {}, 1.5, &fS{}, (*[]int)(nil), true, struct{}{}, [0]int{}}
			for ni, n := range non {
				out := execute(flt, n)
				c.R.Evaluations++
				c.R.States++
				isEmptyArr := ni == len(non)-1
				if out.panicked != "" || (!isEmptyArr && (out.err == nil || out.res != nil)) {
					c.Violate(eng.Violation{Kind: "non-container", Key: fmt.Sprintf("filter=%s | data=%T(%v)", src, n, n), Coords: map[string]int{"x": xi, "c": -1},
						Expected: "(nil, error)", Observed: fmt.Sprintf("(%#v, %v) %s", out.res, out.err, out.panicked)})
				} else {
					c.Count("non-container:error")
				}
				// a nil Filter (also the one CreateFilter("") returns) hands back ANY input unchanged, container or not
				for which, nf := range []*bexpr.Filter{nil, emptyFilter()} {
					nres := execute(nf, n)
					c.R.Evaluations++
					same := nres.panicked == "" && nres.err == nil && sameValue(nres.res, n)
					if !same {
						c.Violate(eng.Violation{Kind: "nil-filter", Key: fmt.Sprintf("nil filter (%d) | data=%T(%v)", which, n, n), Coords: map[string]int{"x": xi, "c": -1},
							Expected: "(input, nil)", Observed: fmt.Sprintf("(%#v, %v) %s", nres.res, nres.err, nres.panicked)})
					}
				}
			}
		}
	}
	c17OtherElements(c)
}

// c17OtherElements: containers whose elements are themselves lists / arrays / scalars, reached by index selectors ("/0" == 1); the
// oracle is the property itself on the real code: Execute keeps exactly the elements on which a freshly created Evaluator says true,
// errors iff one of them errors, in a container of the input's kind (a slice for an array); empty / nil containers give an empty one.
func c17OtherElements(c *eng.Ctx) {
	if !c.Mine(0) || !c.Want("c", -3) {
		return
	}
	conts := []interface{}{
		[][]int{{1}, {2}, {1, 2}}, [][]interface{}{{1, "a"}, {"a"}, {}}, [][]string{{"a", "admin"}, {"b", "user"}}, map[string][2]int{"a": {1, 2}, "b": {2, 1}}, [][2]int{{1, 1}, {0, 1}},
		[3][]int{{1}, {2}, {1}}, []*[]int{{1}, {2}}, [][]int{}, [][]int(nil), []string{}, []int(nil), map[string]int{}, [0]int{}, [0][]int{}, map[string][]int{"a": {1}, "b": {}},
		[]string{"a"}, []int{1, 2}, [1]bool{true},
	}
	srcs := []string{"\"/0\" == 1", "\"/0\" != 1", "\"/1\" == `admin`", "\"/1\" == 1 or \"/0\" == 1", "not (\"/0\" == 2)", "\"/0\" is empty"}
	for si, src := range srcs {
		flt, err := bexpr.CreateFilter(src)
		if err != nil {
			c.Violate(eng.Violation{Kind: "harness-expression-rejected", Key: "create: " + src, Detail: err.Error()})
			continue
		}
		for ci, in := range conts {
			rv := reflect.ValueOf(in)
			c.R.States++
			c.R.Traces++
			key := fmt.Sprintf("filter=%s | container=%T %v", src, in, in)
			co := map[string]int{"c": -3, "s": si, "k": ci}
			// expectation by element-wise Evaluate (maps: only when no element errors or all do, the visiting order being unspecified)
			var kept []reflect.Value
			var keptKeys []reflect.Value
			nerr, n := 0, rv.Len()
			each := func(k, el reflect.Value) {
				ev, _ := bexpr.CreateEvaluator(src)
				o := observe(ev, el.Interface())
				c.R.Evaluations++
				if o.class == model.E || o.panicked {
					nerr++
				} else if o.class == model.T {
					kept = append(kept, el)
					keptKeys = append(keptKeys, k)
				}
			}
			if rv.Kind() == reflect.Map {
				for _, k := range rv.MapKeys() {
					each(k, rv.MapIndex(k))
				}
				if nerr != 0 && nerr != n {
					continue
				}
			} else {
				for i := 0; i < n; i++ {
					each(reflect.Value{}, rv.Index(i))
				}
			}
			out := execute(flt, in)
			c.R.Evaluations++
			c.R.Nontrivial++
			bad := func(kind, exp, obs string) {
				c.Violate(eng.Violation{Kind: kind, Key: key, Coords: co, Expected: exp, Observed: obs})
			}
			switch {
			case out.panicked != "":
				bad("panic", "no panic", out.panicked)
			case nerr > 0:
				if out.err == nil {
					bad("erroring-element-not-reported", "error (an element's Evaluate errors)", fmt.Sprintf("%#v", out.res))
				}
			case out.err != nil:
				bad("unexpected-error", fmt.Sprintf("%d of %d elements kept, no error (Evaluate succeeds on every element)", len(kept), n), out.err.Error())
			default:
				res := reflect.ValueOf(out.res)
				wantKind := rv.Kind()
				if wantKind == reflect.Array {
					wantKind = reflect.Slice
				}
				if !res.IsValid() || res.Kind() != wantKind || res.Len() != len(kept) {
					bad("selection", fmt.Sprintf("%d elements in a %s", len(kept), wantKind), fmt.Sprintf("%#v", out.res))
					break
				}
				for i, el := range kept {
					var got reflect.Value
					if rv.Kind() == reflect.Map {
						got = res.MapIndex(keptKeys[i])
					} else {
						got = res.Index(i)
					}
					if !got.IsValid() || !reflect.DeepEqual(got.Interface(), el.Interface()) {
						bad("selection", fmt.Sprintf("element %v", el.Interface()), fmt.Sprintf("%#v", out.res))
						break
					}
				}
				c.Count("other-elements:ok")
			}
		}
	}
}

func emptyFilter() *bexpr.Filter {
	f, _ := bexpr.CreateFilter("")
	return f
}

// sameValue: identity for reference kinds (pointer, chan, func), deep equality otherwise
func sameValue(a, b interface{}) bool {
	if a == nil || b == nil {
		return a == nil && b == nil
	}
	va, vb := reflect.ValueOf(a), reflect.ValueOf(b)
	if va.Type() != vb.Type() {
		return false
	}
	switch va.Kind() {
	case reflect.Ptr, reflect.Chan, reflect.Func, reflect.UnsafePointer:
		return va.Pointer() == vb.Pointer()
	}
	return reflect.DeepEqual(a, b)
}
