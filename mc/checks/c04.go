package checks

import (
	"reflect"

	bexpr "github.com/hashicorp/go-bexpr"
	"github.com/hashicorp/go-bexpr/grammar"

	"verifmc/eng"
	. "verifmc/model"
)

func init() {
	eng.Register(&eng.Check{
		ID:          "C04",
		Rule:        "differential on the implementation over the C01 match space (default configuration over the whole document universe, plus hook / unknown-value / tag configurations over documents with values behind a wrapper struct): every (selector, literal, document) triple (incl. absent keys, ill-typed literals, nil, non-collections) x the four operator pairs; the negated operator must error exactly when the positive one does and otherwise return its negation; `S contains v` / `S not contains v` must equal `v in S` / `v not in S` (same outcome on every document and identical AST); each must equal not(...) around its counterpart. Distinct by construction; non-trivial = the positive form did not fail in selector resolution (reference walk resolved or hit the absent-key table).",
		Assumptions: []string{"outcome classes only (T/F/E); error texts never compared", "bounded: selector / literal / document alphabets of C01"},
		Run:         runC04,
	})
}

var opPairs = [][2]int{{OpEq, OpNe}, {OpIn, OpNotIn}, {OpEmpty, OpNotEmpty}, {OpMatches, OpNotMatches}}

func runC04(c *eng.Ctx) {
	// pass 0: default configuration over the whole document universe; further passes: hook / unknown-value / tag
	// configurations over the wrapped-document slice (the complement laws must hold under every configuration)
	runC04Pass(c, 0, defaultCfg, docs(c.Thorough()))
	slice := configSlice(c)
	for i, cfg := range slice.cfgs {
		runC04Pass(c, i+1, cfg, slice.docs)
	}
}

func runC04Pass(c *eng.Ctx, pass int, cfg Cfg, ds []*Node) {
	if !c.Want("pass", pass) {
		return
	}
	data := make([]interface{}, len(ds))
	for i, d := range ds {
		data[i] = Build(d).Interface()
	}
	sels := selsQuick
	if c.Thorough() {
		sels = append(append([][]string{}, selsQuick...), selsMore...)
	}
	evalSrc := func(src string) []int {
		ev, err := bexpr.CreateEvaluator(src, optsFor(cfg)...)
		if err != nil {
			c.Violate(eng.Violation{Kind: "harness-expression-rejected", Key: "create: " + src, Detail: err.Error()})
			return nil
		}
		out := make([]int, len(ds))
		for i := range ds {
			o := observe(ev, data[i])
			c.R.Evaluations++
			out[i] = cls3(o)
			if o.panicked {
				c.Violate(eng.Violation{Kind: "panic", Key: caseKey(src, ds[i], cfg), Case: describe(src, ds[i], cfg), Observed: o.String()})
			}
		}
		return out
	}
	cmp := func(idx int, rule, srcA, srcB string, a, b []int, f func(int) int) {
		if a == nil || b == nil {
			return
		}
		for di := range ds {
			if a[di] < 0 || b[di] < 0 {
				continue
			}
			c.R.Traces++
			if b[di] != f(a[di]) {
				c.Violate(eng.Violation{Kind: rule, Key: "A=" + srcA + " | B=" + srcB + " | datum=" + ds[di].String() + cfgSuffix(cfg), Coords: map[string]int{"i": idx, "pass": pass},
					Case: map[string]any{"A": srcA, "B": srcB, "datum": ds[di].String()}, Expected: "B = " + v3name[f(a[di])] + " (A = " + v3name[a[di]] + ")", Observed: "B = " + v3name[b[di]]})
			}
		}
	}
	same := func(x int) int { return x }
	idx := 0
	for _, s := range sels {
		sel := RenderSel(s)
		for _, pair := range opPairs {
			ls := lits
			if pair[0] == OpEmpty {
				ls = []string{""}
			}
			for _, l := range ls {
				idx++
				if !c.Mine(idx) || !c.Want("i", idx) {
					continue
				}
				if c.Expired() {
					return
				}
				style := StyleBacktick
				if identOK(l) {
					style = StyleBare // unquoted word in value position (also words that start with a keyword)
				}
				pos := &Match{Sel: s, Op: pair[0], Lit: l, Style: style}
				neg := &Match{Sel: s, Op: pair[1], Lit: l, Style: style}
				ps, ns := Render(pos), Render(neg)
				p, n := evalSrc(ps), evalSrc(ns)
				cmp(idx, "negation-not-complement", ps, ns, p, n, not3)
				np, nn := Render(&Not{X: pos}), Render(&Not{X: neg})
				cmp(idx, "not-around-positive-differs-from-negated-operator", ns, np, n, evalSrc(np), same)
				cmp(idx, "not-around-negated-differs-from-positive-operator", ps, nn, p, evalSrc(nn), same)
				if pair[0] == OpIn {
					rl := RenderLit(l)
					if style == StyleBare {
						rl = l
					}
					cs := sel + " contains " + rl
					cn := sel + " not contains " + rl
					cmp(idx, "contains-differs-from-in", ps, cs, p, evalSrc(cs), same)
					cmp(idx, "not-contains-differs-from-not-in", ns, cn, n, evalSrc(cn), same)
					for _, q := range [][2]string{{ps, cs}, {ns, cn}} {
						a1, e1 := grammar.Parse("", []byte(q[0]))
						a2, e2 := grammar.Parse("", []byte(q[1]))
						if e1 != nil || e2 != nil || !reflect.DeepEqual(a1, a2) {
							c.Violate(eng.Violation{Kind: "contains-ast-differs-from-in", Key: q[0] + " vs " + q[1], Coords: map[string]int{"i": idx}})
						}
					}
				}
				// statistics: distinct (selector, literal, pair, document) cases and their non-triviality
				for di, d := range ds {
					c.R.States++
					rf := NewRef(d, cfg)
					rf.Eval(pos, nil)
					if rf.Resolved+rf.NotPresent > 0 {
						c.R.Nontrivial++
					}
					if p != nil && p[di] >= 0 {
						c.Count("positive=" + v3name[p[di]])
					}
				}
				c.Sample(map[string]any{"positive": ps, "negated": ns})
			}
		}
	}
}

func cfgSuffix(cfg Cfg) string {
	if cfg == defaultCfg {
		return ""
	}
	return " | " + cfg.String()
}
