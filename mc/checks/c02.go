package checks

import (
	"fmt"
	"math"
	"math/big"
	"sort"
	"strconv"
	"strings"

	bexpr "github.com/hashicorp/go-bexpr"

	"verifmc/eng"
	. "verifmc/model"
)

func init() {
	eng.Register(&eng.Check{
		ID:          "C02",
		Rule:        "E1 bounded product for typed equality: literal alphabet L (every integer in [-130,260] and the 8/16/32/64-bit boundaries, each in 8 spellings: bare, quoted decimal, +signed, 0x, 0X, 0o, legacy octal, 0b, underscore; floats rendered FROM every float value of the data set in shortest/exact/hex/exponent forms; the ParseBool spellings; every string of length<=3 over {a / \" ` \\ space e-acute 0} in every legal quoting; ill-typed and out-of-range junk) x data D (ALL 256 int8 and uint8 values [thorough: all 65536 int16/uint16], boundary sets of the wider widths, float32/float64 specials (+-0, subnormals, min/max, 2^24+1, 2^53+1, 0.1, 1/3), bools, all strings<=3, non-scalars; each plain, named, behind a pointer, in a typed struct field, as json.Number); `a == lit` evaluated on the real code and on the reference (math/big arithmetic, own float-literal reader; strconv not used); plus the five exported Coerce* functions called directly on every literal; plus the unknown-value route: `m.zz == lit` on the datum {m: {}} with WithUnknownValue(v) for every value v of the data set and for nil / a nil pointer (the exhaustive 8/16-bit blocks thinned 1:23, rotating with the literal), against the reference. Distinct by construction; non-trivial = literal is valid for the value's kind (the comparison itself was decided, not a coercion error).",
		Assumptions: []string{"reference reads literals with math/big (exact integers, correctly rounded floats of the field's width)", "exhaustive for 8-bit (thorough: 16-bit) integers, boundary alphabets for wider kinds and floats"},
		Run:         runC02,
	})
}

type litT struct {
	text  string
	style int
}

func intSpellings(y *big.Int) []litT {
	var out []litT
	dec := y.String()
	abs := new(big.Int).Abs(y)
	sign := ""
	if y.Sign() < 0 {
		sign = "-"
	}
	out = append(out, litT{dec, StyleBare}, litT{dec, StyleQuoted})
	if y.Sign() >= 0 {
		out = append(out, litT{"+" + dec, StyleBacktick})
	}
	out = append(out,
		litT{sign + "0x" + abs.Text(16), StyleBacktick},
		litT{sign + "0X" + strings.ToUpper(abs.Text(16)), StyleQuoted},
		litT{sign + "0o" + abs.Text(8), StyleBacktick},
		litT{sign + "0" + abs.Text(8), StyleBacktick},
		litT{sign + "0b" + abs.Text(2), StyleBacktick},
	)
	if d := abs.String(); len(d) >= 2 {
		out = append(out, litT{sign + d[:1] + "_" + d[1:], StyleBacktick})
	}
	return out
}

var c02FloatVals = []float64{0, math.Copysign(0, -1), 1, -1, 0.5, 0.1, 1.0 / 3, 1.5, 2.5, 16777216, 16777217, 9007199254740992, 9007199254740993, 4294967296.5,
	math.SmallestNonzeroFloat64, math.SmallestNonzeroFloat32, float64(math.SmallestNonzeroFloat32) / 2, math.MaxFloat32, math.MaxFloat64, -math.MaxFloat32,
	float64(math.MaxFloat32) * 2, 1e-320, 1.1754943508222875e-38, 3.4028235677973366e+38, 0.30000000000000004, 100, 1e21, 123456789.125}

func c02Literals(thorough bool) []litT {
	seen := map[litT]bool{}
	var out []litT
	add := func(ls ...litT) {
		for _, l := range ls {
			if !seen[l] {
				seen[l] = true
				out = append(out, l)
			}
		}
	}
	for i := int64(-130); i <= 260; i++ {
		add(intSpellings(big.NewInt(i))...)
	}
	bs := []string{"-32769", "-32768", "32767", "32768", "65535", "65536", "-2147483649", "-2147483648", "2147483647", "2147483648", "4294967295", "4294967296",
		"16777217", "9007199254740993", "-9223372036854775809", "-9223372036854775808", "-9223372036854775807", "9223372036854775806", "9223372036854775807", "9223372036854775808",
		"18446744073709551614", "18446744073709551615", "18446744073709551616", "99999999999999999999"}
	for _, b := range bs {
		z, _ := new(big.Int).SetString(b, 10)
		add(intSpellings(z)...)
	}
	// floats rendered from every float value
	for _, f := range c02FloatVals {
		for _, w := range []int{32, 64} {
			g := f
			if w == 32 {
				g = float64(float32(f))
			}
			add(litT{strconv.FormatFloat(g, 'g', -1, w), StyleBacktick}, litT{strconv.FormatFloat(g, 'e', -1, w), StyleQuoted}, litT{strconv.FormatFloat(g, 'x', -1, w), StyleBacktick})
			if math.Abs(g) < 1e22 && math.Abs(g) > 1e-7 || g == 0 {
				s := strconv.FormatFloat(g, 'f', -1, w)
				st := StyleQuoted
				if !strings.HasPrefix(s, "0") || strings.HasPrefix(s, "0.") || s == "0" {
					st = StyleBare
				}
				if !strings.ContainsAny(s, "eE") && !strings.HasPrefix(s, "-0.") || true {
					add(litT{s, st})
				}
			}
			// exact decimal expansion
			add(litT{new(big.Float).SetFloat64(g).Text('f', 60), StyleBacktick})
		}
	}
	for _, s := range []string{"1", "t", "T", "TRUE", "true", "True", "0", "f", "F", "FALSE", "false", "False", "yes", "tRUE", "TrUe", "", " 1", "1 "} {
		add(litT{s, StyleBacktick})
	}
	add(litT{"true", StyleBare}, litT{"false", StyleBare}, litT{"T", StyleBare}, litT{"abc", StyleBare})
	for _, s := range []string{"inf", "-inf", "+Inf", "Infinity", "-INFINITY", "nan", "NaN", "+nan", "infi", "1e400", "-1e400", "1e39", "3.5e38", "1e-400", "0x1p-1080", "0x10", "0x1p4", "0x1_0p4",
		"1_0.5", "1._5", "1e5_0", ".5", "5.", ".", "1e", "1e+", "07.5", "1__0", "_1", "1_", "0_1", "0x_1", "08", "0b2", "0o8", "1e3", "1.0", "-0", "+0", "-0.0", "--1", "1-", "0x", "a", "1a", "١", "１",
		"16777216.999999", "16777217.0000001", "9007199254740992.5", "9007199254740993.000001", "0.1000000000000000055511151231257827", "1.00000005960464477539062", "1.00000005960464477539063",
		"1.0000000000000001110223024625156540423631668090820312", "1.0000000000000001110223024625156540423631668090820313", "4.9e-324", "2.4e-324", "2.5e-324", "7.1e-46", "7.0e-46"} {
		add(litT{s, StyleBacktick})
	}
	// strings
	for _, s := range c02Strings() {
		if !strings.ContainsAny(s, "`") {
			add(litT{s, StyleBacktick})
		}
		if !strings.ContainsAny(s, "\"") {
			add(litT{s, StyleQuoted})
		}
	}
	_ = thorough
	return out
}

func c02Strings() []string {
	alpha := []string{"a", "/", "\"", "`", "\\", " ", "é", "0"}
	out := []string{""}
	prev := []string{""}
	for n := 1; n <= 3; n++ {
		var cur []string
		for _, p := range prev {
			for _, a := range alpha {
				cur = append(cur, p+a)
			}
		}
		out = append(out, cur...)
		prev = cur
	}
	// pointer-looking strings with escape pairs (a quoted VALUE keeps its spelled text) and what they would decode to
	out = append(out, "/a~1b", "/a~0b", "/~01", "/a/b", "/a~b", "/~1")
	return out
}

var intKinds = []Kind{KInt, KInt8, KInt16, KInt32, KInt64}
var uintKinds = []Kind{KUint, KUint8, KUint16, KUint32, KUint64}
var kindBits = map[Kind]uint{KInt: 64, KInt8: 8, KInt16: 16, KInt32: 32, KInt64: 64, KUint: 64, KUint8: 8, KUint16: 16, KUint32: 32, KUint64: 64}

func c02Values(thorough bool) []*Node {
	var vs []*Node
	for i := -128; i <= 127; i++ {
		vs = append(vs, NInt(KInt8, false, int64(i)))
	}
	for i := 0; i <= 255; i++ {
		vs = append(vs, NUint(KUint8, false, uint64(i)))
	}
	if thorough {
		for i := -32768; i <= 32767; i++ {
			vs = append(vs, NInt(KInt16, false, int64(i)))
		}
		for i := 0; i <= 65535; i++ {
			vs = append(vs, NUint(KUint16, false, uint64(i)))
		}
	}
	for _, k := range intKinds {
		if k == KInt8 {
			continue
		}
		b := kindBits[k]
		min := int64(-1) << (b - 1)
		max := -(min + 1)
		set := map[int64]bool{min: true, min + 1: true, -1: true, 0: true, 1: true, max - 1: true, max: true, -129: true, 128: true, 255: true, 256: true}
		for _, x := range []int64{1<<24 - 1, 1<<24 + 1, 1<<53 - 1, 1<<53 + 1, 1<<31 - 1, 1 << 31, -(1 << 31), 65535, 65536, 32767, -32768, math.MaxInt64, math.MinInt64} {
			set[x] = true
		}
		var xs []int64
		for x := range set {
			if x >= min && x <= max {
				xs = append(xs, x)
			}
		}
		sort.Slice(xs, func(i, j int) bool { return xs[i] < xs[j] })
		for _, x := range xs {
			vs = append(vs, NInt(k, false, x))
		}
		vs = append(vs, NInt(k, true, max), NInt(k, true, 1))
	}
	for _, k := range uintKinds {
		if k == KUint8 {
			continue
		}
		b := kindBits[k]
		max := uint64(math.MaxUint64)
		if b < 64 {
			max = 1<<b - 1
		}
		set := map[uint64]bool{0: true, 1: true, max - 1: true, max: true, 255: true, 256: true, 65535: true, 65536: true}
		for _, x := range []uint64{1<<24 + 1, 1<<53 + 1, 1<<63 - 1, 1 << 63, 1<<63 + 1, 1<<32 - 1, 1 << 32} {
			set[x] = true
		}
		var xs []uint64
		for x := range set {
			if x <= max {
				xs = append(xs, x)
			}
		}
		sort.Slice(xs, func(i, j int) bool { return xs[i] < xs[j] })
		for _, x := range xs {
			vs = append(vs, NUint(k, false, x))
		}
		vs = append(vs, NUint(k, true, max))
	}
	for _, f := range c02FloatVals {
		vs = append(vs, NFloat(KFloat64, false, f))
		if !math.IsInf(float64(float32(f)), 0) {
			vs = append(vs, NFloat(KFloat32, false, float64(float32(f))))
		}
	}
	vs = append(vs, NFloat(KFloat64, false, math.Inf(1)), NFloat(KFloat64, false, math.Inf(-1)), NFloat(KFloat64, false, math.NaN()), NFloat(KFloat32, false, math.Inf(1)), NFloat(KFloat32, false, math.NaN()),
		NFloat(KFloat64, true, 1.5), NFloat(KFloat32, true, 1.5))
	vs = append(vs, NBool(false, true), NBool(false, false), NBool(true, true), NBool(true, false))
	for _, s := range c02Strings() {
		vs = append(vs, str(s))
	}
	vs = append(vs, NStr(true, "a"), NStr(true, ""), NStr(true, "/a"))
	for _, j := range []string{"1", "-1", "255", "256", "1.5", "0.1", "1e3", "9223372036854775807", "9223372036854775808", "16777217", "9007199254740993", "1e400", "zz", "0x10", "1_0", "-0", "1.0"} {
		vs = append(vs, NJSON(j))
	}
	// non-scalars: equality must be an error
	vs = append(vs, NNilAny(), NSlice(TAny), NSlice(TInt, one), NMap(TStr, TAny), NStruct(F{Name: "A", V: one}), NNilPtr(TInt), NPtr(NPtr(one)), NArray(TInt, one), &Node{T: Sc(KComplex, false), F: 1})
	return vs
}

// c02Docs wraps every value as {"a": v} in the representations: interface map value, pointer, typed struct field, named handled by the value itself.
func c02Docs(thorough bool) []*Node {
	var out []*Node
	for i, v := range c02Values(thorough) {
		out = append(out, NMap(TStr, TAny, str("a"), v))
		if v.T.K == KIface {
			continue
		}
		// thin out the representations for the big exhaustive blocks in thorough to keep the product bounded
		if thorough && (v.T.K == KInt16 || v.T.K == KUint16) && i%16 != 0 {
			continue
		}
		out = append(out, NStruct(F{Name: "A", Tag: `bexpr:"a"`, V: v}))
		if v.T.K.Scalar() {
			out = append(out, NMap(TStr, TAny, str("a"), NPtr(v)), NMap(TStr, v.T, str("a"), v))
		}
	}
	return out
}

func runC02(c *eng.Ctx) {
	ls := c02Literals(c.Thorough())
	ds := c02Docs(c.Thorough())
	data := make([]interface{}, len(ds))
	for i, d := range ds {
		data[i] = Build(d).Interface()
	}
	vals := c02Values(c.Thorough())
	emptyDoc := NMap(TStr, TAny, str("m"), NMap(TStr, TAny)) // the absent key sits below a map: without an unknown value the comparison is simply false
	emptyDatum := Build(emptyDoc).Interface()
	c.MaxOf("literals", int64(len(ls)))
	c.MaxOf("documents", int64(len(ds)))
	if c.Mine(0) && c.Want("l", -1) {
		c02RawBytes(c)
	}
	for li, l := range ls {
		if !c.Mine(li) || !c.Want("l", li) {
			continue
		}
		if c.Expired() {
			return
		}
		// direct calls of the exported coercion functions
		c02Coerce(c, li, l.text)
		e := &Match{Sel: []string{"a"}, Op: OpEq, Lit: l.text, Style: l.style}
		src := Render(e)
		ev, err := bexpr.CreateEvaluator(src)
		if err != nil {
			c.Violate(eng.Violation{Kind: "harness-expression-rejected", Key: "create: " + src, Coords: map[string]int{"l": li}, Detail: err.Error()})
			continue
		}
		for di, d := range ds {
			if !c.Want("d", di) {
				continue
			}
			rf := NewRef(d, defaultCfg)
			want := rf.Eval(e, nil)
			got := observe(ev, data[di])
			c.R.Evaluations++
			c.R.Traces++
			c.R.States++
			if want != E {
				c.R.Nontrivial++
			}
			if got.panicked || got.class&want == 0 {
				c.Violate(eng.Violation{Kind: "typed-equality-mismatch", Key: caseKey(src, d, defaultCfg), Coords: map[string]int{"l": li, "d": di}, Case: describe(src, d, defaultCfg),
					Expected: SetStr(want), Observed: got.String(), Detail: got.msg})
				continue
			}
			c.Count(SetStr(got.class))
		}
		// the same comparison when the value does not come from the datum but from WithUnknownValue (absent selector): it must
		// be compared in its own type exactly like a resolved value (a json.Number is a number there too)
		ue := &Match{Sel: []string{"m", "zz"}, Op: OpEq, Lit: l.text, Style: l.style}
		usrc := Render(ue)
		for vi, v := range append(append([]*Node{}, vals...), NNilAny(), NNilPtr(TInt)) {
			big := !v.T.Named && (v.T.K == KInt8 || v.T.K == KUint8 || v.T.K == KInt16 || v.T.K == KUint16)
			if big && vi%23 != li%23 {
				continue
			}
			if !c.Want("d", -1-vi) {
				continue
			}
			cfg := Cfg{Tag: "bexpr", Unknown: v}
			uev, err := bexpr.CreateEvaluator(usrc, optsFor(cfg)...)
			if err != nil {
				c.Violate(eng.Violation{Kind: "harness-expression-rejected", Key: "create: " + usrc, Coords: map[string]int{"l": li}, Detail: err.Error()})
				break
			}
			want := NewRef(emptyDoc, cfg).Eval(ue, nil)
			got := observe(uev, emptyDatum)
			c.R.Evaluations++
			c.R.Traces++
			c.R.States++
			if want != E {
				c.R.Nontrivial++
			}
			if got.panicked || got.class&want == 0 {
				c.Violate(eng.Violation{Kind: "typed-equality-mismatch-on-unknown-value", Key: caseKey(usrc, emptyDoc, cfg), Coords: map[string]int{"l": li, "d": -1 - vi}, Case: describe(usrc, emptyDoc, cfg),
					Expected: SetStr(want), Observed: got.String(), Detail: got.msg})
				continue
			}
			c.Count("unknown-route:" + SetStr(got.class))
		}
		c.Sample(map[string]any{"expression": src, "documents": len(ds)})
	}
}

// c02RawBytes: the expression text is UTF-8; a literal containing raw bytes that are not (spelled without an escape) is not a
// literal at all - creation fails, in both quote styles, whatever the evaluator is configured with
func c02RawBytes(c *eng.Ctx) {
	for _, raw := range []string{"\xff", "a\xffb", "\xc3", "caf\xe9", "\xed\xa0\x80", "\xf8\x88\x80\x80\x80"} {
		for _, tm := range []string{"a == \"%s\"", "a != `%s`", "\"%s\" in a", "a matches \"%s\"", "a[\"%s\"] == 1"} {
			src := fmt.Sprintf(tm, raw)
			ev, err := bexpr.CreateEvaluator(src)
			c.R.Evaluations++
			c.R.States++
			c.R.Traces++
			c.R.Nontrivial++
			if err == nil || ev != nil {
				c.Violate(eng.Violation{Kind: "raw-invalid-utf8-in-literal-accepted", Key: fmt.Sprintf("create: %q", src), Expected: "an error (the expression is not UTF-8 text)", Observed: "an evaluator"})
			} else {
				c.Count("raw-invalid-utf8:rejected")
			}
		}
	}
}

func c02Coerce(c *eng.Ctx, li int, lit string) {
	bad := func(fn, exp, obs string) {
		c.Violate(eng.Violation{Kind: "coerce-function-mismatch", Key: fn + "(" + strconv.Quote(lit) + ")", Coords: map[string]int{"l": li}, Expected: exp, Observed: obs})
	}
	c.R.Evaluations += 5
	// int64
	{
		v, err := bexpr.CoerceInt64(lit)
		z, ok := new(big.Int).SetString(lit, 0)
		valid := ok && z.IsInt64()
		if valid != (err == nil) {
			bad("CoerceInt64", fmt.Sprintf("valid=%v", valid), fmt.Sprintf("err=%v", err))
		} else if valid && (v.(int64) != z.Int64()) {
			bad("CoerceInt64", z.String(), fmt.Sprint(v))
		}
	}
	{
		v, err := bexpr.CoerceUint64(lit)
		z, ok := new(big.Int).SetString(lit, 0)
		valid := ok && z.IsUint64() && !strings.HasPrefix(lit, "+") && !strings.HasPrefix(lit, "-")
		if valid != (err == nil) {
			bad("CoerceUint64", fmt.Sprintf("valid=%v", valid), fmt.Sprintf("err=%v", err))
		} else if valid && (v.(uint64) != z.Uint64()) {
			bad("CoerceUint64", z.String(), fmt.Sprint(v))
		}
	}
	{
		v, err := bexpr.CoerceBool(lit)
		want, valid := map[string]bool{"1": true, "t": true, "T": true, "TRUE": true, "true": true, "True": true, "0": false, "f": false, "F": false, "FALSE": false, "false": false, "False": false}[lit]
		if valid != (err == nil) {
			bad("CoerceBool", fmt.Sprintf("valid=%v", valid), fmt.Sprintf("err=%v", err))
		} else if valid && v.(bool) != want {
			bad("CoerceBool", fmt.Sprint(want), fmt.Sprint(v))
		}
	}
	for _, w := range []int{32, 64} {
		var v interface{}
		var err error
		name := "CoerceFloat64"
		if w == 32 {
			name = "CoerceFloat32"
			v, err = bexpr.CoerceFloat32(lit)
		} else {
			v, err = bexpr.CoerceFloat64(lit)
		}
		f, st := RefParseFloat(lit, w)
		if (st == 0) != (err == nil) {
			bad(name, fmt.Sprintf("status=%d", st), fmt.Sprintf("err=%v", err))
			continue
		}
		if st == 0 {
			var g float64
			if w == 32 {
				g = float64(v.(float32))
			} else {
				g = v.(float64)
			}
			if !(g == f || (math.IsNaN(g) && math.IsNaN(f))) || math.Signbit(g) != math.Signbit(f) {
				bad(name, fmt.Sprint(f), fmt.Sprint(g))
			}
		}
	}
}
