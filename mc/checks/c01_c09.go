package checks

import (
	"fmt"
	"verifmc/eng"
	. "verifmc/model"
)

var defaultCfg = Cfg{Tag: "bexpr"}

func init() {
	eng.Register(&eng.Check{
		ID:   "C01",
		Rule: "E1 bounded product: every expression of the bounded expression universe (match: selectors x 8 operators x literal alphabet; quantifiers x 4 binding modes x body templates, nesting<=3; connectives over an atom pool) x every typed abstract document (leaves of all scalar kinds/named/json.Number/nil/pointers, every container constructor over them, top-level map/struct/pointer-to-struct, JSON-decoded documents in both decodings), default configuration, plus a reduced product (every 7th expression) under hook / unknown-value / tag configurations over documents with values behind a wrapper struct; each case executed on the real Evaluate and on the reference interpreter; cases are distinct by construction; non-trivial = at least one match selector resolved or hit the absent-key table in the reference (the operator was exercised).",
		Assumptions: []string{"reference interpreter (verifmc/model) written from README/doc comments/property statements; two-element allowed sets only in the unspecified cells U1-U6 of DESIGN.md 4.3",
			"trusted: Go reflect/regexp/math/big/strconv, pointerstructure+mapstructure behaviour as mirrored in the reference", "bounded: nothing claimed beyond the stated alphabets"},
		Run: runC01,
	})
	eng.Register(&eng.Check{
		ID:          "C09",
		Rule:        "E1 bounded product (same universe as C01, all 27 reflect kinds as top-level datum / map value / struct field / slice element / under non-string-keyed maps / as unknown value) with the totality oracle: no panic, err!=nil implies result==false; non-trivial = the selector resolved (an operator met a value).",
		Assumptions: []string{"bounded: operator x kind matrix over the stated universe; recoverable panics are observed in-process, unrecoverable fatals as worker crashes"},
		Run:         runC09,
	})
}

func e1Product(c *eng.Ctx) *product {
	return &product{exprs: exprs(c.Thorough()), docs: docs(c.Thorough()), cfgs: []Cfg{defaultCfg}}
}

func runC01(c *eng.Ctx) {
	p := e1Product(c)
	c.MaxOf("expressions", int64(len(p.exprs)))
	c.MaxOf("documents", int64(len(p.docs)))
	judge := func(src string, e any, d *Node, cfg Cfg, want int, got obsT, co map[string]int) {
		c.R.States++
		if got.panicked {
			c.Violate(eng.Violation{Kind: "panic", Key: caseKey(src, d, cfg), Coords: co, Case: describe(src, d, cfg), Expected: SetStr(want), Observed: got.String(), Detail: got.msg})
			return
		}
		if got.class&want == 0 {
			c.Violate(eng.Violation{Kind: "mismatch", Key: caseKey(src, d, cfg), Coords: co, Case: describe(src, d, cfg), Expected: SetStr(want), Observed: got.String(), Detail: got.msg})
			return
		}
		c.Count(SetStr(got.class))
		if want&(want-1) != 0 {
			c.Count("unspecified-cell")
		}
		c.Sample(describe(src, d, cfg))
	}
	p.run(c, judge)
	if !c.Replaying() || c.Only["slice"] == 1 {
		cs := configSlice(c)
		cs.run(c, func(src string, e any, d *Node, cfg Cfg, want int, got obsT, co map[string]int) {
			co["slice"] = 1
			judge(src, e, d, cfg, want, got, co)
		})
	}
}

// configSlice: a reduced product under non-default configurations (identity / unwrap hook, unknown value, json tag)
// over documents whose values sit behind the wrapper struct at leaf and parent positions. C05 and C18 own these
// configurations; the slice makes C01's "reference agreement" see them as well.
func configSlice(c *eng.Ctx) *product {
	mp := func(kv ...*Node) *Node { return NMap(TStr, TAny, kv...) }
	var ds []*Node
	for _, in := range []*Node{one, str("a"), mp(str("a"), one), mp(), NSlice(TAny, one, str("a")), NNilAny(), NStruct(F{Name: "A", Tag: `bexpr:"a" json:"ja"`, V: one}, F{Name: "J", Tag: `json:"a" bexpr:"-"`, V: str("a")})} {
		ds = append(ds, mp(str("a"), in), mp(str("a"), NWrapper(in)), mp(str("a"), mp(str("a"), NWrapper(in))), mp(str("a"), NWrapper(mp(str("a"), in))), mp(str("a"), NSlice(TAny, NWrapper(in), in)),
			NStruct(F{Name: "A", Tag: `bexpr:"a" json:"ja"`, V: NAny(NWrapper(in))}, F{Name: "J", Tag: `json:"a" bexpr:"-"`, V: NAny(in)}), mp(str("a"), NPtr(NWrapper(in))))
	}
	var es []any
	for i, e := range exprs(false) {
		if i%7 == 0 {
			es = append(es, e)
		}
	}
	return &product{exprs: es, docs: ds, cfgs: []Cfg{{Tag: "bexpr", Hook: HookUnwrap}, {Tag: "bexpr", Hook: HookIdentity}, {Tag: "json", Hook: HookUnwrap}, {Tag: "bexpr", Unknown: one}, {Tag: "", Hook: HookUnwrap, Unknown: str("a")}}}
}

func runC09(c *eng.Ctx) {
	p := e1Product(c)
	// unknown-value configurations put every kind in the "unknown value" placement
	if c.Thorough() {
		p.cfgs = append(p.cfgs, Cfg{Tag: "bexpr", Unknown: NNilAny()}, Cfg{Tag: "bexpr", Unknown: NNilPtr(TInt)}, Cfg{Tag: "bexpr", Unknown: &Node{T: Sc(KChan, false)}},
			Cfg{Tag: "bexpr", Unknown: NNilAny(), Hook: HookIdentity}, Cfg{Tag: "bexpr", Unknown: NNilAny(), Hook: HookUnwrap}, Cfg{Tag: "bexpr", Unknown: NNilPtr(TInt), Hook: HookSwap})
	} else {
		p.cfgs = append(p.cfgs, Cfg{Tag: "bexpr", Unknown: NNilAny()})
	}
	judge9 := func(src string, e any, d *Node, cfg Cfg, want int, got obsT, co map[string]int) {
		c.R.States++
		switch {
		case got.panicked:
			c.Violate(eng.Violation{Kind: "panic", Key: caseKey(src, d, cfg), Coords: co, Case: describe(src, d, cfg), Expected: "returns normally", Observed: got.String(), Detail: got.msg})
		case got.errTrue:
			c.Violate(eng.Violation{Kind: "err-with-true", Key: caseKey(src, d, cfg), Coords: co, Case: describe(src, d, cfg), Expected: "(false, err)", Observed: got.String(), Detail: got.msg})
		default:
			c.Count(SetStr(got.class))
			c.Sample(describe(src, d, cfg))
		}
	}
	p.run(c, judge9)
	// option COMBINATIONS (hook x nil unknown value x tag) over the reduced product of the configuration slice
	if !c.Replaying() || c.Only["slice"] == 1 {
		cs := configSlice(c)
		cs.cfgs = append(cs.cfgs, Cfg{Tag: "bexpr", Unknown: NNilAny(), Hook: HookIdentity}, Cfg{Tag: "bexpr", Unknown: NNilAny(), Hook: HookUnwrap}, Cfg{Tag: "json", Unknown: NNilPtr(TInt), Hook: HookSwap},
			Cfg{Tag: "", Unknown: NNilAny(), Hook: HookConst})
		cs.run(c, func(src string, e any, d *Node, cfg Cfg, want int, got obsT, co map[string]int) {
			co["slice"] = 1
			judge9(src, e, d, cfg, want, got, co)
		})
	}
	// "every expression accepted by CreateEvaluator" also means strings nobody would write: every accepted token sequence of the language
	// explorer's alphabets (a dangling operator, a keyword as identifier, ...) is evaluated on the probe data of C10
	if _, replayingOther := c.Only["e"]; !replayingOther && c.Want("f", 9) {
		tokenInputs(c, 9, "i", func(b []byte, co map[string]int) {
			src := string(b)
			ev, err := createSafe(src, nil)
			if err != nil || ev == nil {
				return
			}
			c.R.States++
			c.R.Traces++
			c.R.Nontrivial++
			for di, d := range c10Probes {
				got := observe(ev, d)
				c.R.Evaluations++
				switch {
				case got.panicked:
					c.Violate(eng.Violation{Kind: "panic", Key: fmt.Sprintf("expr=%q | probe#%d", src, di), Coords: co, Expected: "returns normally", Observed: got.String(), Detail: got.msg})
				case got.errTrue:
					c.Violate(eng.Violation{Kind: "err-with-true", Key: fmt.Sprintf("expr=%q | probe#%d", src, di), Coords: co, Expected: "(false, err)", Observed: got.String(), Detail: got.msg})
				default:
					c.Count("accepted-token-sequence:" + SetStr(got.class))
				}
			}
		})
	}
}
