package checks

import (
	"fmt"
	"reflect"
	"strings"

	bexpr "github.com/hashicorp/go-bexpr"

	"verifmc/eng"
	. "verifmc/model"
)

// obsT is what is observed from the implementation for one call. Error texts
// are kept only for diagnostics and never compared.
type obsT struct {
	class    int // T | Fa | E
	panicked bool
	errTrue  bool // err != nil && result == true
	msg      string
}

func (o obsT) String() string {
	switch {
	case o.panicked:
		return "PANIC(" + trunc(o.msg, 120) + ")"
	case o.errTrue:
		return "(true, err)"
	}
	return SetStr(o.class)
}

func trunc(s string, n int) string {
	if len(s) > n {
		return s[:n] + "…"
	}
	return s
}

func observe(ev *bexpr.Evaluator, datum interface{}) (o obsT) {
	eng.CallBegin(ev, datum)
	defer func() {
		eng.CallEnd()
		if r := recover(); r != nil {
			o = obsT{panicked: true, msg: fmt.Sprint(r)}
		}
	}()
	res, err := ev.Evaluate(datum)
	if err != nil {
		return obsT{class: E, errTrue: res, msg: err.Error()}
	}
	return obsT{class: B2S(res)}
}

// hooks of the family, in the idiom of the repository's tests
func hookFn(h int) bexpr.ValueTransformationHookFn {
	switch h {
	case HookIdentity:
		return func(v reflect.Value) reflect.Value { return v }
	case HookUnwrap:
		return func(v reflect.Value) reflect.Value {
			if !v.IsValid() || !v.CanInterface() {
				return v
			}
			if w, ok := v.Interface().(Wrapper); ok {
				return reflect.ValueOf(w.W)
			}
			return v
		}
	case HookConst:
		return func(v reflect.Value) reflect.Value { return reflect.ValueOf(42) }
	case HookSwap:
		return func(v reflect.Value) reflect.Value {
			x := v
			for x.IsValid() && x.Kind() == reflect.Interface && !x.IsNil() {
				x = x.Elem()
			}
			if x.IsValid() && x.Kind() == reflect.Int {
				switch x.Int() {
				case 1:
					return reflect.ValueOf(2)
				case 2:
					return reflect.ValueOf(1)
				}
			}
			return v
		}
	}
	return nil
}

// optsFor turns a reference configuration into the public options. The default
// tag name is expressed by passing no option at all.
func optsFor(cfg Cfg) []bexpr.Option {
	var opts []bexpr.Option
	if cfg.Tag != "bexpr" {
		opts = append(opts, bexpr.WithTagName(cfg.Tag))
	}
	if cfg.Unknown != nil {
		opts = append(opts, bexpr.WithUnknownValue(Build(cfg.Unknown).Interface()))
	}
	if cfg.Hook != HookNone {
		opts = append(opts, bexpr.WithHookFn(hookFn(cfg.Hook)))
	}
	return opts
}

// createWith creates an evaluator for cfg the way a caller does who recycles its option slice: the slice has spare capacity and
// is overwritten with contradicting options as soon as CreateEvaluator has returned. The evaluator must have taken what it
// needs at creation; memory the caller owns is not its to keep.
func createWith(src string, cfg Cfg) (*bexpr.Evaluator, error) {
	opts := append(make([]bexpr.Option, 0, 8), optsFor(cfg)...)
	ev, err := bexpr.CreateEvaluator(src, opts...)
	scribble(opts)
	return ev, err
}

func scribble(opts []bexpr.Option) {
	full := opts[:cap(opts)]
	for i := range full {
		switch i % 3 {
		case 0:
			full[i] = bexpr.WithTagName("scribbled-after-creation")
		case 1:
			full[i] = bexpr.WithUnknownValue("scribbled-after-creation")
		default:
			full[i] = bexpr.WithHookFn(hookFn(HookConst))
		}
	}
}

type product struct {
	exprs []any
	docs  []*Node
	cfgs  []Cfg
	data  []interface{}
}

func (p *product) build() {
	p.data = make([]interface{}, len(p.docs))
	for i, d := range p.docs {
		p.data[i] = Build(d).Interface()
	}
}

func caseKey(src string, d *Node, cfg Cfg) string {
	return fmt.Sprintf("expr=%s | datum=%s | %s", src, d, cfg)
}

// run enumerates exprs × cfgs × docs; expressions are sharded over workers and
// parsed once per (expression, config). judge sees the reference set and the observation.
func (p *product) run(c *eng.Ctx, judge func(src string, e any, d *Node, cfg Cfg, want int, got obsT, coords map[string]int)) {
	if p.data == nil {
		p.build()
	}
	for ei, e := range p.exprs {
		if !c.Mine(ei) || !c.Want("e", ei) {
			continue
		}
		if c.Expired() {
			return
		}
		src := Render(e)
		for ci, cfg := range p.cfgs {
			if !c.Want("c", ci) {
				continue
			}
			ev, err := createWith(src, cfg)
			if err != nil {
				c.Violate(eng.Violation{Kind: "harness-expression-rejected", Key: "create: " + src, Detail: err.Error(),
					Coords: map[string]int{"e": ei, "c": ci}})
				continue
			}
			for di, d := range p.docs {
				if !c.Want("d", di) {
					continue
				}
				rf := NewRef(d, cfg)
				want := rf.Eval(e, nil)
				got := observe(ev, p.data[di])
				c.R.Evaluations++
				c.R.Traces++
				if rf.Resolved+rf.NotPresent > 0 {
					c.R.Nontrivial++
				}
				judge(src, e, d, cfg, want, got, map[string]int{"e": ei, "c": ci, "d": di})
			}
		}
	}
}

func isMatchExpr(e any) bool { _, ok := e.(*Match); return ok }

func describe(src string, d *Node, cfg Cfg) map[string]any {
	return map[string]any{"expression": src, "datum": d.String(), "config": cfg.String()}
}

func joinLines(ss []string) string { return strings.Join(ss, "\n") }
