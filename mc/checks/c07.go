package checks

import (
	"fmt"
	"reflect"
	"strconv"
	"strings"
	"unicode"

	bexpr "github.com/hashicorp/go-bexpr"
	"github.com/hashicorp/go-bexpr/grammar"

	"verifmc/eng"
	. "verifmc/model"
)

func init() {
	eng.Register(&eng.Check{
		ID:          "C07",
		Rule:        "E1/E2 differential over selector spellings: every path of 1..3 parts over the part alphabet {a, A, b, 0, 01, a/b, a~b, a.b, 'a b', ' a', e-acute, \"\", ~1, ~0, x~01, k/, k~, /k, ~k, /, ~, ~~, ~/ (keys that themselves contain escape-like text)} that is expressible in >=2 spellings x EVERY combination of per-part spelling (.ident, .digits, [\"..\"], [`..`], [ \"..\" ] with inner blanks, escape spelling, mixed within one selector; whole-selector JSON pointer with ~0/~1 escapes) x 8 operators x documents (nested string-keyed maps of depth 1..3 with a distinct leaf per path, struct/tag and list variants), also as quantified collection, inside quantifier bodies (alias-relative; key / index placeholders by bare name and by one-segment JSON pointer), and two different paths with colliding rendered text (a[\"a.b\"] vs a.a.b) inside ONE expression in every spelling pair; oracle: grammar.Parse yields exactly the intended Path for every spelling and Evaluate's outcome is identical across the spellings of one path on every document; distinct leaves make case-/blank-variants select different keys. Distinct by construction; non-trivial = a (path, operator) group with >=2 spellings compared.",
		Assumptions: []string{"outcome classes only", "bounded part alphabet and depth"},
		Run:         runC07,
	})
}

var c07Parts = []string{"a", "A", "b", "0", "01", "a/b", "a~b", "a.b", "a b", " a", "é", "", "~1", "~0", "x~01", "a-b", "a:b|c", "_x", "007", "1e3", "-1",
	// separators / escape characters at the END and START of a key and alone (single-pass decoders slip at the boundaries)
	"k/", "k~", "/k", "~k", "/", "~", "~~", "~/",
	// all-digit keys beyond the int64 / uint64 range (a numeric part is a map key too, not only a list index)
	"9223372036854775808", "18446744073709551616",
	// an escape next to characters outside ASCII (byte-wise decoders), a character outside the BMP
	"\u00e9/b", "\u00e9~", "\U0001d518/",
	// keys that a file-path cleaner would drop or resolve (a pointer is not a file path)
	".", "..", "..."}

func identOK(s string) bool {
	if s == "" {
		return false
	}
	for i, r := range s {
		al := (r >= 'a' && r <= 'z') || (r >= 'A' && r <= 'Z')
		if i == 0 && !al {
			return false
		}
		if !(al || (r >= '0' && r <= '9') || r == '_' || r == '/') {
			return false
		}
	}
	return true
}

func digitsOK(s string) bool {
	if s == "" {
		return false
	}
	for _, r := range s {
		if r < '0' || r > '9' {
			return false
		}
	}
	return true
}

func jpPartOK(s string) bool {
	if s == "" {
		return false
	}
	for _, r := range s {
		if !(unicode.IsLetter(r) || unicode.IsNumber(r) || strings.ContainsRune("-_.~:|/", r)) {
			return false
		}
	}
	return true
}

// restSpellings: every spelling of one non-first part.
func restSpellings(p string, thorough bool) []string {
	var out []string
	if identOK(p) {
		out = append(out, "."+p)
	}
	if digitsOK(p) {
		out = append(out, "."+p)
	}
	if !strings.Contains(p, "\"") {
		out = append(out, "["+strconv.Quote(p)+"]")
	}
	if !strings.ContainsAny(p, "`\r") {
		out = append(out, "[`"+p+"`]")
	}
	if thorough || p == "a" || p == "" {
		out = append(out, "[ "+strconv.Quote(p)+"\t]")
		if p != "" {
			// escape spelling of the first byte/rune
			r := []rune(p)
			out = append(out, "[\""+runeEscape(r[0])+strings.Trim(strconv.Quote(string(r[1:])), "\"")+"\"]")
		}
	}
	return out
}

// spellings of a whole path; kinds are only for the evidence.
func c07Spellings(path []string, thorough bool) []string {
	var out []string
	if identOK(path[0]) {
		cur := []string{path[0]}
		for _, p := range path[1:] {
			var nxt []string
			for _, c := range cur {
				for _, s := range restSpellings(p, thorough) {
					nxt = append(nxt, c+s)
				}
			}
			cur = nxt
		}
		out = append(out, cur...)
	}
	ok := true
	for _, p := range path {
		ok = ok && jpPartOK(p)
	}
	if ok {
		out = append(out, RenderJSONPointer(path))
	}
	return out
}

func c07Paths(thorough bool) [][]string {
	var out [][]string
	parts := c07Parts
	for _, a := range parts {
		out = append(out, []string{a})
		for _, b := range parts {
			out = append(out, []string{a, b})
			third := parts
			if !thorough {
				third = []string{"a", "0", "a.b", "a~b", "", "~1"}
			}
			for _, c := range third {
				out = append(out, []string{a, b, c})
			}
		}
	}
	return out
}

func leafID(path []string) string { return "v" + strings.Join(path, "|") + "$" }

// tree of string-keyed maps of the given depth, a distinct string leaf per path
func c07Tree(prefix []string, depth int) *Node {
	if depth == 0 {
		return str(leafID(prefix))
	}
	var kv []*Node
	for _, p := range c07Parts {
		kv = append(kv, str(p), c07Tree(append(append([]string{}, prefix...), p), depth-1))
	}
	return NMap(TStr, TAny, kv...)
}

func c07Docs() []*Node {
	ds := []*Node{c07Tree(nil, 1), c07Tree(nil, 2), c07Tree(nil, 3)}
	// struct root with tags / Go names, list in the middle
	inner := c07Tree([]string{"a"}, 2)
	ds = append(ds,
		NStruct(F{Name: "A", V: inner}, F{Name: "X", Tag: `bexpr:"a"`, V: c07Tree([]string{"a"}, 1)}, F{Name: "B", Tag: `bexpr:"a.b"`, V: str("tagged")}, F{Name: "b", Unexp: true, V: one}),
		NMap(TStr, TAny, str("a"), NSlice(TAny, c07Tree([]string{"a", "0"}, 1), str("second")), str("A"), NSlice(TAny, str("x"))),
	)
	return ds
}

func runC07(c *eng.Ctx) {
	paths := c07Paths(c.Thorough())
	ds := c07Docs()
	data := make([]interface{}, len(ds))
	for i, d := range ds {
		data[i] = Build(d).Interface()
	}
	evalSrc := func(src string) []int {
		ev, err := bexpr.CreateEvaluator(src)
		if err != nil {
			c.Violate(eng.Violation{Kind: "spelling-rejected", Key: "create: " + src, Detail: err.Error()})
			return nil
		}
		out := make([]int, len(ds))
		for i := range ds {
			o := observe(ev, data[i])
			c.R.Evaluations++
			out[i] = cls3(o)
			if o.panicked {
				c.Violate(eng.Violation{Kind: "panic", Key: "expr=" + src + fmt.Sprintf(" | doc#%d", i), Observed: o.String()})
			}
		}
		return out
	}
	type tmpl struct {
		name string
		mk   func(sel string, path []string) string
	}
	tmpls := []tmpl{
		{"==", func(s string, p []string) string { return s + " == " + RenderLit(leafID(p)) }},
		{"!=", func(s string, p []string) string { return s + " != " + RenderLit(leafID(p)) }},
		{"in", func(s string, p []string) string { return "`a.b` in " + s }},
		{"not in", func(s string, p []string) string { return "`A` not in " + s }},
		{"is empty", func(s string, p []string) string { return s + " is empty" }},
		{"is not empty", func(s string, p []string) string { return s + " is not empty" }},
		{"matches", func(s string, p []string) string { return s + " matches `^va` " }},
		{"not matches", func(s string, p []string) string { return s + " not matches `\\|a\\$$`" }},
		{"any-collection", func(s string, p []string) string {
			return "any " + s + " as k, v { v == " + RenderLit(leafID(append(append([]string{}, p...), "a~b"))) + " }"
		}},
		{"all-collection", func(s string, p []string) string { return "all " + s + " as k { k != `zz` }" }},
	}
	for pi, path := range paths {
		if !c.Mine(pi) || !c.Want("p", pi) {
			continue
		}
		if c.Expired() {
			return
		}
		sps := c07Spellings(path, c.Thorough())
		if len(sps) < 2 {
			continue
		}
		// (1) parser: every spelling yields exactly the intended path
		for _, sp := range sps {
			c.R.Evaluations++
			ast, err := grammar.Parse("", []byte(sp+" is empty"))
			if err != nil {
				c.Violate(eng.Violation{Kind: "spelling-rejected", Key: "parse: " + sp, Coords: map[string]int{"p": pi}, Detail: err.Error()})
				continue
			}
			m, ok := ast.(*grammar.MatchExpression)
			if !ok || !reflect.DeepEqual(m.Selector.Path, path) {
				c.Violate(eng.Violation{Kind: "path-differs", Key: "parse: " + sp, Coords: map[string]int{"p": pi}, Expected: fmt.Sprintf("%q", path), Observed: fmt.Sprintf("%#v", ast)})
			}
		}
		// (2) evaluation: identical outcome across spellings, every operator
		for ti, t := range tmpls {
			var first []int
			var firstSrc string
			for si, sp := range sps {
				src := t.mk(sp, path)
				got := evalSrc(src)
				c.R.States++
				c.R.Traces++
				if got == nil {
					continue
				}
				if first == nil {
					first, firstSrc = got, src
					continue
				}
				for di := range ds {
					if got[di] != first[di] && got[di] >= 0 && first[di] >= 0 {
						c.Violate(eng.Violation{Kind: "spelling-changes-outcome", Key: "A=" + firstSrc + " | B=" + src + " | datum=" + ds[di].String()[:60], Coords: map[string]int{"p": pi, "t": ti, "s": si},
							Case: map[string]any{"A": firstSrc, "B": src, "doc": di}, Expected: v3name[first[di]], Observed: v3name[got[di]]})
					}
				}
			}
			if first != nil {
				c.R.Nontrivial++
				for di := range ds {
					if first[di] >= 0 {
						c.Count(t.name + ":" + v3name[first[di]])
					}
				}
			}
		}
		// (3) inside a quantifier body, relative to a value alias (paths below "a")
		if len(path) >= 2 && path[0] == "a" {
			rest := path[1:]
			for _, al := range []string{"x", "b"} {
				var bodies []string
				cur := []string{al}
				for _, p := range rest {
					var nxt []string
					for _, cc := range cur {
						for _, s := range restSpellings(p, false) {
							nxt = append(nxt, cc+s)
						}
					}
					cur = nxt
				}
				bodies = append(bodies, cur...)
				okJP := true
				for _, p := range rest {
					okJP = okJP && jpPartOK(p)
				}
				if okJP {
					bodies = append(bodies, RenderJSONPointer(append([]string{al}, rest...)))
				}
				if len(bodies) >= 2 {
					var first []int
					var firstSrc string
					// the collection is the map "a": x ranges over its values; the leaf under key path[1]... compare only
					lit := RenderLit(leafID(append([]string{"a", "a"}, rest...)))
					for _, b := range bodies {
						src := "any a as _, " + al + " { " + b + " == " + lit + " }"
						got := evalSrc(src)
						c.R.States++
						c.R.Traces++
						if got == nil {
							continue
						}
						if first == nil {
							first, firstSrc = got, src
							continue
						}
						for di := range ds {
							if got[di] != first[di] && got[di] >= 0 && first[di] >= 0 {
								c.Violate(eng.Violation{Kind: "spelling-changes-outcome-in-body", Key: "A=" + firstSrc + " | B=" + src + fmt.Sprintf(" | doc#%d", di), Coords: map[string]int{"p": pi},
									Expected: v3name[first[di]], Observed: v3name[got[di]]})
							}
						}
					}
					if first != nil {
						c.R.Nontrivial++
						for di := range ds {
							if first[di] >= 0 {
								c.Count("body:" + v3name[first[di]])
							}
						}
					}
				}
			}
		}
		// (3b) key / index placeholders referred to by their bare name and by the one-segment JSON pointer; the placeholder is called
		// like a top-level key of the documents, so that "not taken for the placeholder" does not error but silently reads the datum
		if pi == 0 {
			for _, tm := range []string{"any a as b, _ { %s == `a` }", "all a as b { %s != `b` }", "any a as b, v { %s == `0` or %s == `a` }", "any a as b, _ { any a as A, _ { %s == `a` and A != `zz` } }",
				"any a as b, _ { %s matches `a` }", "all a as b, _ { `a` in %s }", "any a as b { %s is empty }"} {
				var first []int
				var firstSrc string
				for _, ref := range []string{"b", `"/b"`} {
					src := strings.ReplaceAll(tm, "%s", ref)
					got := evalSrc(src)
					c.R.States++
					c.R.Traces++
					if got == nil {
						continue
					}
					if first == nil {
						first, firstSrc = got, src
						c.R.Nontrivial++
						continue
					}
					for di := range ds {
						if got[di] != first[di] && got[di] >= 0 && first[di] >= 0 {
							c.Violate(eng.Violation{Kind: "spelling-changes-outcome-of-placeholder", Key: "A=" + firstSrc + " | B=" + src + fmt.Sprintf(" | doc#%d", di), Coords: map[string]int{"p": pi},
								Expected: v3name[first[di]], Observed: v3name[got[di]]})
						}
					}
					c.Count("placeholder-spellings")
				}
			}
		}
		// (4) two DIFFERENT paths inside one expression whose rendered texts collide (a part containing "." or "/" vs the
		// split-up nested path): each selector must keep its own value whatever the spelling of the other
		if len(path) == 2 && (strings.Contains(path[1], ".") || strings.Contains(path[1], "/")) && path[1] != "a/b" || len(path) == 2 && path[1] == "a.b" || len(path) == 2 && path[1] == "a/b" {
			sep := "."
			if strings.Contains(path[1], "/") {
				sep = "/"
			}
			split := append([]string{path[0]}, strings.Split(path[1], sep)...)
			inAlphabet := true // the trees only hold keys of the part alphabet: the split-up path must exist in them
			for _, sp := range split {
				found := false
				for _, q := range c07Parts {
					found = found || q == sp
				}
				inAlphabet = inAlphabet && found
			}
			if len(split) == 3 && identOK(split[0]) && inAlphabet {
				splitSps := c07Spellings(split, false)
				// the two colliding paths as QUANTIFIED collections, one after the other in this process and on one datum in which both
				// are lists with different elements: each quantifier must range over its own list, whichever ran before
				{
					la, lb := leafID(path)+"|list", leafID(split)+"|list"
					inner := NMap(TStr, TAny, str(path[1]), NSlice(TAny, str(la)), str(split[1]), NMap(TStr, TAny, str(split[2]), NSlice(TAny, str(lb), str(lb))))
					qdatum := Build(NMap(TStr, TAny, str(path[0]), inner)).Interface()
					evalQ := func(sel, lit string) int {
						src := "any " + sel + " as x { x == " + RenderLit(lit) + " }"
						ev, err := bexpr.CreateEvaluator(src)
						if err != nil {
							return -2
						}
						c.R.Evaluations++
						return cls3(observe(ev, qdatum))
					}
					for _, spA := range sps {
						for _, spB := range splitSps {
							for round := 0; round < 2; round++ {
								for _, q := range []struct {
									sel, lit string
									want     int
								}{{spA, la, vT}, {spB, lb, vT}, {spA, lb, vF}, {spB, la, vF}} {
									got := evalQ(q.sel, q.lit)
									c.R.States++
									c.R.Traces++
									if got == -2 {
										continue
									}
									if got != q.want {
										c.Violate(eng.Violation{Kind: "colliding-quantified-collections-confused", Key: fmt.Sprintf("expr=any %s as x { x == %s } (after quantifying over %s / %s)", q.sel, RenderLit(q.lit), spA, spB), Coords: map[string]int{"p": pi},
											Expected: v3name[q.want], Observed: v3name[got]})
									}
								}
							}
						}
					}
					c.Count("colliding-quantified-collections")
				}
				// outcomes are compared between spellings of the SAME template (the two templates differ in operand order, and
				// `E and F` is not `F and E`)
				for ti, tm := range []string{"%s is not empty and %s == " + RenderLit(leafID(split)), "%[2]s == " + RenderLit(leafID(split)) + " and %[1]s is not empty"} {
					var first []int
					var firstSrc string
					for _, spA := range sps {
						for _, spB := range splitSps {
							src := fmt.Sprintf(tm, spA, spB)
							got := evalSrc(src)
							c.R.States++
							c.R.Traces++
							if got == nil {
								continue
							}
							if first == nil {
								first, firstSrc = got, src
								continue
							}
							for di := range ds {
								if got[di] != first[di] && got[di] >= 0 && first[di] >= 0 {
									c.Violate(eng.Violation{Kind: "spelling-changes-outcome-with-two-selectors", Key: "A=" + firstSrc + " | B=" + src + fmt.Sprintf(" | doc#%d", di), Coords: map[string]int{"p": pi},
										Expected: v3name[first[di]], Observed: v3name[got[di]]})
								}
							}
						}
					}
					if first != nil {
						if ti == 0 {
							c.R.Nontrivial++
						}
						// on the depth-3 tree both selectors resolve: the conjunction must be true there
						if first[2] != vT {
							c.Violate(eng.Violation{Kind: "colliding-selectors-confused", Key: "expr=" + firstSrc + " | depth-3 tree", Coords: map[string]int{"p": pi}, Expected: "T", Observed: v3name[first[2]]})
						}
						c.Count("two-selectors:" + v3name[first[2]])
					}
				}
			}
		}
		c.Sample(map[string]any{"path": path, "spellings": sps})
	}
}

// runeEscape is the \u / \U escape spelling of one rune (supplementary-plane runes need the 8-digit form).
func runeEscape(r rune) string {
	if r > 0xffff {
		return fmt.Sprintf("\\U%08x", r)
	}
	return fmt.Sprintf("\\u%04x", r)
}
