package checks

import (
	"fmt"
	"reflect"
	"strconv"

	bexpr "github.com/hashicorp/go-bexpr"

	"verifmc/eng"
	. "verifmc/model"
)

func init() {
	eng.Register(&eng.Check{
		ID:          "C06",
		Rule:        "E1 bounded product for quantifiers: collection shapes ([]interface{}, [N]interface{}, []map, []struct, []*struct, []int, []string, map[string]interface{}, map[string]struct, nested lists/maps; lists and maps of wrapper structs under the unwrap hook; a list under the identity hook with an unknown value) of length 0..4 (thorough 0..5) with EVERY assignment of {T,F,E} to the elements' body outcome, plus lengths 8, 9, 17, 33 with the decisive / erroring element at first, middle, last position x any/all x 4 binding modes x 4 name choices (fresh, shadowing a top-level field, same name twice) x body templates (binding as root, as prefix, via JSON pointer, index/key, unused, mixed, negated) x nesting up to 3 (incl. the same collection iterated again inside its own body, and collections under 3- and 5-part selectors), plus non-iterables; oracles: (a) reference interpreter, (b) unrolling on the implementation: for value aliases over lists `any S as x {P(x)}` == `P(S.0) or ... or P(S.n-1)` (all: conjunction) by syntactic substitution. Distinct by construction; non-trivial = the collection selector resolved to an iterable with >=1 element (the fold ran).",
		Assumptions: []string{"reference interpreter as in C01 (map iteration order unspecified when an element errors and another is decisive: both outcomes allowed, consistency is C14's business)"},
		Run:         runC06,
	})
}

type c06shape struct {
	name   string
	codes  int // 3 = T/F/E expressible, 2 = T/F only
	isMap  bool
	mixed  bool // list or map depending on the pattern: nothing is unrolled, the reference decides
	mk     func(pat []int) *Node
	body   func(v string) *Match // value body giving the element's outcome
	nested bool
	// configuration under which the shape is evaluated (default: none)
	hook    int
	unknown *Node
	// reentrant: the shape is evaluated under an identity hook that, while a value is being resolved, evaluates the SAME
	// evaluator on another datum (re-entrancy is the sequential way to overlap two evaluations of one syntax tree)
	reentrant bool
	// sel: collection selector (default S); longer selectors exercise path building (slices built by successive appends
	// have spare capacity at 3 and 5..7 parts)
	sel []string
}

func pick(code int, t, f, e *Node) *Node {
	switch code {
	case vT:
		return t
	case vF:
		return f
	}
	return e
}

func c06Shapes(thorough bool) []c06shape {
	two := NInt(KInt, false, 2)
	mp := func(kv ...*Node) *Node { return NMap(TStr, TAny, kv...) }
	root := func(v string) *Match { return &Match{Sel: []string{v}, Op: OpEq, Lit: "1"} }
	fld := func(v string) *Match { return &Match{Sel: []string{v, "f"}, Op: OpEq, Lit: "1"} }
	stT := func(x *Node) *Node {
		return NStruct(F{Name: "F", Tag: `bexpr:"f"`, V: NAny(x)}, F{Name: "g", Unexp: true, V: one})
	}
	stType := stT(one).T
	elems := func(pat []int, t, f, e *Node) []*Node {
		var out []*Node
		for _, c := range pat {
			out = append(out, pick(c, t, f, e))
		}
		return out
	}
	mapOf := func(elemT *Type, items []*Node) *Node {
		var kv []*Node
		// keys that need care when they become path parts: "/", "~", ".", blank, escape-like text
		names := []string{"k0", "k/1", "k~2", "k.3", "~14", "k 5", "k6", "k7"}
		for i, it := range items {
			name := "k" + strconv.Itoa(i)
			if i < len(names) {
				name = names[i]
			}
			kv = append(kv, str(name), it)
		}
		return NMap(TStr, elemT, kv...)
	}
	shapes := []c06shape{
		{name: "[]interface{}", codes: 3, body: root, mk: func(p []int) *Node { return NSlice(TAny, elems(p, one, two, NNilAny())...) }},
		{name: "[N]interface{}", codes: 3, body: root, mk: func(p []int) *Node { return NArray(TAny, elems(p, one, two, NNilAny())...) }},
		{name: "[]map[string]interface{}", codes: 3, body: fld, mk: func(p []int) *Node {
			return NSlice(mp().T, elems(p, mp(str("f"), one), mp(str("f"), two), mp(str("f"), NNilAny()))...)
		}},
		{name: "[]struct", codes: 3, body: fld, mk: func(p []int) *Node { return NSlice(stType, elems(p, stT(one), stT(two), stT(NSlice(TAny)))...) }},
		{name: "[]int", codes: 2, body: root, mk: func(p []int) *Node { return NSlice(TInt, elems(p, one, two, nil)...) }},
		{name: "map[string]interface{}", codes: 3, isMap: true, body: root, mk: func(p []int) *Node { return mapOf(TAny, elems(p, one, two, NNilAny())) }},
		{name: "map[string]struct", codes: 3, isMap: true, body: fld, mk: func(p []int) *Node { return mapOf(stType, elems(p, stT(one), stT(two), stT(NSlice(TAny)))) }},
		{name: "[][]interface{}", codes: 3, nested: true, body: nil, mk: func(p []int) *Node {
			return NSlice(NSlice(TAny).T, elems(p, NSlice(TAny, two, one), NSlice(TAny, two), NSlice(TAny, two, NNilAny(), one))...)
		}},
	}
	// elements behind the wrapper struct; the whole shape is evaluated under the unwrap hook (cfg below)
	shapes = append(shapes,
		c06shape{name: "[]Wrapper (unwrap hook)", codes: 3, body: root, hook: HookUnwrap, mk: func(p []int) *Node {
			return NSlice(NWrapper(one).T, elems(p, NWrapper(one), NWrapper(two), NWrapper(NNilAny()))...)
		}},
		c06shape{name: "map[string]interface{} of Wrapper (unwrap hook)", codes: 3, isMap: true, body: root, hook: HookUnwrap, mk: func(p []int) *Node {
			return mapOf(TAny, elems(p, NWrapper(one), NWrapper(two), NWrapper(NSlice(TAny))))
		}},
		c06shape{name: "[]interface{} (identity hook, unknown value 2)", codes: 3, body: root, hook: HookIdentity, unknown: two, mk: func(p []int) *Node { return NSlice(TAny, elems(p, one, two, NNilAny())...) }},
	)
	// ONE evaluator meeting a list and a map in turn (the meaning of the one-name binding depends on the collection it meets)
	for parity := 0; parity < 2; parity++ {
		parity := parity
		shapes = append(shapes, c06shape{name: fmt.Sprintf("[]interface{} / map[string]interface{} alternating under one evaluator (map for lengths of parity %d)", parity), codes: 3, mixed: true, body: root, mk: func(p []int) *Node {
			if len(p)%2 == parity {
				return mapOf(TAny, elems(p, one, two, NNilAny()))
			}
			return NSlice(TAny, elems(p, one, two, NNilAny())...)
		}})
	}
	// a hook that transforms the scalar elements themselves: the value placeholder must see what a lookup of S.i sees
	shapes = append(shapes,
		c06shape{name: "[]int (scalar-swapping hook)", codes: 2, body: root, hook: HookSwap, mk: func(p []int) *Node { return NSlice(TInt, elems(p, one, two, nil)...) }},
		c06shape{name: "[]interface{} (scalar-swapping hook)", codes: 3, body: root, hook: HookSwap, mk: func(p []int) *Node { return NSlice(TAny, elems(p, one, two, NNilAny())...) }},
		c06shape{name: "map[string]int (scalar-swapping hook)", codes: 2, isMap: true, body: root, hook: HookSwap, mk: func(p []int) *Node { return mapOf(TInt, elems(p, one, two, nil)) }},
		c06shape{name: "[N]MyInt (scalar-swapping hook)", codes: 2, body: root, hook: HookSwap, mk: func(p []int) *Node {
			return NArray(Sc(KInt, true), elems(p, NInt(KInt, true, 1), NInt(KInt, true, 2), nil)...)
		}},
	)
	shapes = append(shapes,
		c06shape{name: "[]interface{} under a 3-part selector", codes: 3, body: root, sel: []string{"p", "q", "S"}, mk: func(p []int) *Node { return NSlice(TAny, elems(p, one, two, NNilAny())...) }},
		c06shape{name: "[]interface{} under a 3-part selector, re-entrant hook", codes: 3, body: root, sel: []string{"p", "q", "S"}, hook: HookIdentity, reentrant: true, mk: func(p []int) *Node { return NSlice(TAny, elems(p, one, two, NNilAny())...) }},
		c06shape{name: "[]interface{}, re-entrant hook, unknown value 2", codes: 3, body: root, hook: HookIdentity, unknown: two, reentrant: true, mk: func(p []int) *Node { return NSlice(TAny, elems(p, one, two, NNilAny())...) }},
		c06shape{name: "map[string]interface{} under a 3-part selector, re-entrant hook", codes: 3, isMap: true, body: root, sel: []string{"p", "q", "S"}, hook: HookIdentity, reentrant: true, mk: func(p []int) *Node { return mapOf(TAny, elems(p, one, two, NNilAny())) }},
		c06shape{name: "map[string]interface{} under a 5-part selector", codes: 3, isMap: true, body: root, sel: []string{"p", "q", "r", "s", "S"}, mk: func(p []int) *Node { return mapOf(TAny, elems(p, one, two, NNilAny())) }},
	)
	if thorough {
		shapes = append(shapes,
			c06shape{name: "[]*struct", codes: 3, body: fld, mk: func(p []int) *Node {
				return NSlice(&Type{K: KPtr, Elem: stType}, elems(p, NPtr(stT(one)), NPtr(stT(two)), NNilPtr(stType))...)
			}},
			c06shape{name: "[]string", codes: 2, body: root, mk: func(p []int) *Node { return NSlice(TStr, elems(p, str("1"), str("2"), nil)...) }},
			c06shape{name: "[N]int", codes: 2, body: root, mk: func(p []int) *Node { return NArray(TInt, elems(p, one, two, nil)...) }},
			c06shape{name: "map[string]int", codes: 2, isMap: true, body: root, mk: func(p []int) *Node { return mapOf(TInt, elems(p, one, two, nil)) }},
			c06shape{name: "map[string][]interface{}", codes: 3, isMap: true, nested: true, mk: func(p []int) *Node {
				return mapOf(NSlice(TAny).T, elems(p, NSlice(TAny, two, one), NSlice(TAny, two), NSlice(TAny, two, NNilAny(), one)))
			}},
			c06shape{name: "[]map[string]interface{} (nested maps)", codes: 3, nested: true, mk: func(p []int) *Node {
				return NSlice(mp().T, elems(p, mp(str("a"), one), mp(str("a"), two), mp(str("a"), NNilAny(), str("b"), NNilAny()))...)
			}},
		)
	}
	return shapes
}

// patterns enumerates every assignment of `codes` outcome codes to 0..maxLen elements.
func patterns(codes, maxLen int) [][]int {
	out := [][]int{{}}
	prev := [][]int{{}}
	for n := 1; n <= maxLen; n++ {
		var cur [][]int
		for _, p := range prev {
			for c := 0; c < codes; c++ {
				cur = append(cur, append(append([]int{}, p...), c))
			}
		}
		out = append(out, cur...)
		prev = cur
	}
	return out
}

type c06expr struct {
	q        *Quant
	unroll   bool // value alias over a list: unrolling oracle applies
	valName  string
	template string
}

func c06Exprs(sh c06shape, thorough bool) []c06expr {
	var out []c06expr
	S := []string{"S"}
	if sh.sel != nil {
		S = sh.sel
	}
	namesFor := map[int][][2]string{
		BindDefault: {{"i", "x"}, {"i", "t"}},             // only the value name matters
		BindIndex:   {{"i", "x"}, {"t", "x"}, {"x", "t"}}, // only the index name matters
		BindValue:   {{"i", "x"}, {"i", "t"}},
		BindBoth:    {{"i", "x"}, {"t", "x"}, {"i", "t"}, {"x", "x"}},
	}
	for _, all := range []bool{false, true} {
		for mode := 0; mode < 4; mode++ {
			names := namesFor[mode]
			for _, nm := range names {
				I, V := nm[0], nm[1]
				type tb struct {
					name string
					body any
				}
				var tbs []tb
				if sh.nested {
					for _, innerAll := range []bool{false, true} {
						tbs = append(tbs,
							tb{"nested-default", &Quant{All: innerAll, Sel: []string{V}, Mode: BindDefault, Val: "y", Body: &Match{Sel: []string{"y"}, Op: OpEq, Lit: "1"}}},
							tb{"nested-inner-shadows-outer", &Quant{All: innerAll, Sel: []string{V}, Mode: BindValue, Val: V, Body: &Match{Sel: []string{V}, Op: OpEq, Lit: "1"}}},
							tb{"nested-both", &Quant{All: innerAll, Sel: []string{V}, Mode: BindBoth, Idx: "j", Val: "y", Body: &Bin{Or: true, L: &Match{Sel: []string{"y"}, Op: OpEq, Lit: "1"}, R: &Match{Sel: []string{"j"}, Op: OpEq, Lit: "9"}}}},
						)
					}
					for _, innerAll := range []bool{false, true} {
						// depth 3: y is rooted at the OUTER V; the innermost quantifier binds the name V again (over the outer collection); y keeps its meaning
						tbs = append(tbs, tb{"depth3-innermost-rebinds-outermost-name", &Quant{All: innerAll, Sel: []string{V}, Mode: BindValue, Val: "y",
							Body: &Quant{All: false, Sel: S, Mode: BindValue, Val: V, Body: &Match{Sel: []string{"y"}, Op: OpEq, Lit: "1"}}}})
					}
					tbs = append(tbs, tb{"is-empty", &Match{Sel: []string{V}, Op: OpEmpty}})
				} else {
					vb := sh.body(V)
					jp := *vb
					jp.JP = true
					// the SAME collection iterated again inside its own body (outer alias must keep pointing at the outer element)
					for _, innerAll := range []bool{false, true} {
						tbs = append(tbs, tb{"same-collection-nested", &Quant{All: innerAll, Sel: S, Mode: BindValue, Val: "y", Body: &Bin{Or: false, L: sh.body("y"), R: vb}}})
						// ... with a body that tells the two aliases apart (outer element is 1, inner element is 2)
						y2 := *sh.body("y")
						y2.Lit = "2"
						tbs = append(tbs, tb{"same-collection-nested-distinct", &Quant{All: innerAll, Sel: S, Mode: BindBoth, Idx: "j", Val: "y", Body: &Bin{Or: innerAll, L: &y2, R: vb}}})
					}
					tbs = append(tbs,
						tb{"value", vb},
						tb{"value-json-pointer", &jp},
						tb{"index==0", &Match{Sel: []string{I}, Op: OpEq, Lit: "0"}},
						tb{"key==k0", &Match{Sel: []string{I}, Op: OpEq, Lit: "k0"}},
						tb{"index-with-subpath", &Match{Sel: []string{I, "f"}, Op: OpEq, Lit: "1"}},
						tb{"unused", &Match{Sel: []string{"t"}, Op: OpEq, Lit: "1"}},
						// the datum's member with the EMPTY name: placeholders that are not given (`_`, or absent in the one-name form) bind nothing,
						// in particular not the empty name
						tb{"empty-name-is-not-bound", &Match{Sel: []string{""}, Op: OpEq, Lit: "1"}},
						tb{"value-or-index", &Bin{Or: true, L: vb, R: &Match{Sel: []string{I}, Op: OpEq, Lit: "1"}}},
						tb{"not-value", &Not{X: vb}},
					)
					if thorough {
						tbs = append(tbs,
							tb{"value-and-unused", &Bin{Or: false, L: vb, R: &Match{Sel: []string{"t"}, Op: OpEq, Lit: "1"}}},
							tb{"value-in", &Match{Sel: vb.Sel, Op: OpIn, Lit: "1"}},
							tb{"value-is-empty", &Match{Sel: []string{V}, Op: OpEmpty}},
						)
					}
				}
				for _, t := range tbs {
					q := &Quant{All: all, Sel: S, Mode: mode, Idx: I, Val: V, Body: t.body}
					bindsValue := mode == BindValue || mode == BindBoth || (mode == BindDefault && !sh.isMap)
					un := bindsValue && !sh.isMap && !sh.mixed && !(mode == BindBoth && (I == V || usesHead(t.body, I)))
					out = append(out, c06expr{q: q, unroll: un, valName: V, template: t.name})
				}
			}
		}
	}
	// JSON-pointer spelled collection selector and struct-rooted variants are covered by C07; one instance here
	if !sh.nested {
		out = append(out, c06expr{q: &Quant{All: false, Sel: S, JP: true, Mode: BindValue, Val: "x", Body: sh.body("x")}, unroll: !sh.isMap && !sh.mixed, valName: "x", template: "collection-json-pointer"})
	}
	return out
}

// usesHead: does any selector in e start with name
func usesHead(e any, name string) bool {
	switch n := e.(type) {
	case *Match:
		return n.Sel[0] == name
	case *Not:
		return usesHead(n.X, name)
	case *Bin:
		return usesHead(n.L, name) || usesHead(n.R, name)
	case *Quant:
		return n.Sel[0] == name || usesHead(n.Body, name)
	}
	return false
}

// subst replaces the head `name` of every selector in e by path (respecting inner re-binding).
func subst(e any, name string, path []string) any {
	rep := func(sel []string) []string {
		if sel[0] == name {
			return append(append([]string{}, path...), sel[1:]...)
		}
		return sel
	}
	switch n := e.(type) {
	case *Match:
		cp := *n
		cp.Sel = rep(n.Sel)
		return &cp
	case *Not:
		return &Not{X: subst(n.X, name, path)}
	case *Bin:
		return &Bin{Or: n.Or, L: subst(n.L, name, path), R: subst(n.R, name, path)}
	case *Quant:
		cp := *n
		cp.Sel = rep(n.Sel)
		rebinds := (n.Mode == BindDefault && n.Val == name) || (n.Mode == BindIndex && n.Idx == name) || (n.Mode == BindValue && n.Val == name) ||
			(n.Mode == BindBoth && (n.Idx == name || n.Val == name))
		if !rebinds {
			cp.Body = subst(n.Body, name, path)
		}
		return &cp
	}
	panic("subst")
}

func unrolled(q *Quant, valName string, n int) any {
	var parts []any
	for i := 0; i < n; i++ {
		parts = append(parts, subst(q.Body, valName, append(append([]string{}, q.Sel...), strconv.Itoa(i))))
	}
	res := parts[n-1]
	for i := n - 2; i >= 0; i-- {
		res = &Bin{Or: !q.All, L: parts[i], R: res}
	}
	return res
}

var wrapSel []string

func runC06(c *eng.Ctx) {
	maxLen := 4
	if c.Thorough() {
		maxLen = 5
	}
	shapes := c06Shapes(c.Thorough())
	unit := 0
	wrap := func(coll *Node, variant int) *Node {
		if cur := wrapSel; len(cur) > 1 {
			n := coll
			for i := len(cur) - 1; i >= 1; i-- {
				n = NMap(TStr, TAny, str(cur[i]), n)
			}
			return NMap(TStr, TAny, str(cur[0]), n, str("t"), one, str(""), one)
		}
		if variant == 1 {
			return NPtr(NStruct(F{Name: "S", V: coll}, F{Name: "T", Tag: `bexpr:"t"`, V: one}, F{Name: "x", Unexp: true, V: one}))
		}
		return NMap(TStr, TAny, str("S"), coll, str("t"), one, str(""), one)
	}
	type cached struct {
		ev  *bexpr.Evaluator
		src string
	}
	for si, sh := range shapes {
		wrapSel = sh.sel
		pats := patterns(sh.codes, maxLen)
		// size boundaries (append growth steps 8/16/32): long collections with the decisive / erroring element at the
		// first, middle, last position and in both orders
		for _, n := range []int{8, 9, 17, 33} {
			mk := func(fill int, at map[int]int) []int {
				p := make([]int, n)
				for i := range p {
					p[i] = fill
					if v, ok := at[i]; ok {
						p[i] = v
					}
				}
				return p
			}
			other := vE
			if sh.codes == 2 {
				other = vT
			}
			pats = append(pats, mk(vF, nil), mk(vT, nil), mk(vF, map[int]int{0: vT}), mk(vF, map[int]int{n / 2: vT}), mk(vF, map[int]int{n - 1: vT}), mk(vT, map[int]int{n - 1: vF}),
				mk(vF, map[int]int{n - 2: other, n - 1: vT}), mk(vF, map[int]int{n - 2: vT, n - 1: other}), mk(vT, map[int]int{7: other}), mk(vT, map[int]int{n - 1: other}))
		}
		es := c06Exprs(sh, c.Thorough())
		variants := 1
		if c.Thorough() {
			variants = 2
		}
		for xi, x := range es {
			unit++
			if !c.Mine(unit) || !c.Want("s", si) || !c.Want("x", xi) {
				continue
			}
			if c.Expired() {
				return
			}
			src := Render(x.q)
			cfg := Cfg{Tag: "bexpr", Hook: sh.hook, Unknown: sh.unknown}
			var ev *bexpr.Evaluator
			var err error
			if sh.reentrant {
				var self *bexpr.Evaluator
				depth := 0
				other := Build(wrap(sh.mk([]int{vF, vE, vF, vF, vT, vF}), 0)).Interface()
				ropts := append(optsFor(Cfg{Tag: "bexpr", Unknown: sh.unknown}), bexpr.WithHookFn(func(v reflect.Value) reflect.Value {
					if depth == 0 && self != nil {
						depth++
						self.Evaluate(other)
						depth--
					}
					return v
				}))
				ev, err = bexpr.CreateEvaluator(src, ropts...)
				self = ev
			} else {
				ev, err = createWith(src, cfg)
			}
			if err != nil {
				c.Violate(eng.Violation{Kind: "harness-expression-rejected", Key: "create: " + src, Detail: err.Error()})
				continue
			}
			unr := map[int]cached{}
			for pi, pat := range pats {
				if pi%16 == 0 && c.Expired() {
					return
				}
				for variant := 0; variant < variants; variant++ {
					if !c.Want("p", pi) || !c.Want("v", variant) {
						continue
					}
					d := wrap(sh.mk(pat), variant)
					datum := Build(d).Interface()
					rf := NewRef(d, cfg)
					want := rf.Eval(x.q, nil)
					got := observe(ev, datum)
					c.R.Evaluations++
					c.R.Traces++
					c.R.States++
					co := map[string]int{"s": si, "x": xi, "p": pi, "v": variant}
					if len(pat) > 0 {
						c.R.Nontrivial++
					}
					if got.panicked || got.class&want == 0 {
						c.Violate(eng.Violation{Kind: "reference-mismatch", Key: caseKey(src, d, cfg), Coords: co, Case: describe(src, d, cfg),
							Expected: SetStr(want), Observed: got.String(), Detail: fmt.Sprintf("shape=%s template=%s pattern=%v: %s", sh.name, x.template, pat, got.msg)})
						continue
					}
					c.Count(SetStr(got.class))
					// (the unrolled form nests one parenthesis level per element and the real parser's work grows ~4x per level)
					if x.unroll && len(pat) > 0 && len(pat) <= 5 {
						u, ok := unr[len(pat)]
						if !ok {
							u.src = Render(unrolled(x.q, x.valName, len(pat)))
							u.ev, err = createWith(u.src, cfg)
							if err != nil {
								c.Violate(eng.Violation{Kind: "harness-expression-rejected", Key: "create: " + u.src, Detail: err.Error()})
								u.ev = nil
							}
							unr[len(pat)] = u
						}
						if u.ev != nil {
							g2 := observe(u.ev, datum)
							c.R.Evaluations++
							c.Count("unrolled")
							if cls3(g2) != cls3(got) {
								c.Violate(eng.Violation{Kind: "unrolling-mismatch", Key: caseKey(src, d, defaultCfg), Coords: co, Case: describe(src, d, defaultCfg),
									Expected: g2.String() + " from " + u.src, Observed: got.String()})
							}
						}
					}
				}
			}
			c.Sample(map[string]any{"expression": src, "shape": sh.name, "patterns": len(pats)})
		}
	}
	wrapSel = nil
	// non-iterables: every quantifier over them is an error (reference decides)
	if c.Mine(0) && c.Want("s", -1) {
		non := []*Node{one, str("a"), NNilAny(), NStruct(F{Name: "A", V: one}), NPtr(NSlice(TAny, one)), NMap(TInt, TInt, one, one), NMap(Sc(KString, true), TInt, NStr(true, "a"), one),
			NMap(TAny, TAny, str("a"), one), NMap(TInt, TInt), NPtr(NMap(TStr, TAny, str("a"), one)), NNilPtr(NSlice(TAny).T), {T: Sc(KChan, false)}}
		for mode := 0; mode < 4; mode++ {
			for _, all := range []bool{false, true} {
				q := &Quant{All: all, Sel: []string{"S"}, Mode: mode, Idx: "i", Val: "x", Body: &Match{Sel: []string{"t"}, Op: OpEq, Lit: "1"}}
				src := Render(q)
				ev, err := bexpr.CreateEvaluator(src)
				if err != nil {
					continue
				}
				for ni, n := range non {
					d := wrap(n, 0)
					want := NewRef(d, defaultCfg).Eval(q, nil)
					got := observe(ev, Build(d).Interface())
					c.R.Evaluations++
					c.R.States++
					c.R.Traces++
					if got.panicked || got.class&want == 0 {
						c.Violate(eng.Violation{Kind: "reference-mismatch", Key: caseKey(src, d, defaultCfg), Coords: map[string]int{"s": -1, "n": ni}, Case: describe(src, d, defaultCfg), Expected: SetStr(want), Observed: got.String()})
					} else {
						c.Count("non-iterable:" + SetStr(got.class))
					}
				}
			}
		}
	}
}
