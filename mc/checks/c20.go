//go:build verif

package checks

import (
	"fmt"
	"os"

	"github.com/hashicorp/go-bexpr/grammar"

	"verifmc/eng"
	"verifmc/pegcmp"
)

func init() {
	eng.Register(&eng.Check{
		ID:           "C20",
		Rule:         "E6 rule-graph product walk (complete, no bound): grammar.peg is read with the harness's own PEG-syntax reader, grammar.go with go/parser; every rule (name, order, display name) and every expression node of both are walked in lockstep (node kind, alternatives, sequences, labels, & ! ? * +, literals + case flag, rule references, code predicates); for every character class membership of ALL 1 114 112 runes is compared (own class-syntax reader vs the table's chars/ranges/classes/inverted/ignoreCase); every action / predicate code block is compared with the on* function body after go/printer normalisation, its parameter list with the labels in scope and the callon* wrapper's argument order; no rule, on* or callon* function may be left unmatched; in addition every class matcher of the rule table AS IT EXISTS AT RUN TIME (read through an accessor added by the generated overlay, so the unicode tables are the ones the engine's helper really returned) is compared with grammar.peg on all runes. states = node pairs, transitions = child edges + rune membership checks; non-trivial = node pairs compared (every pair carries content). Source positions and display-only strings are reported, not judged.",
		Assumptions:  []string{"complete structural comparison of the two files in /repo's working tree; the PEG engine part of grammar.go (generic pigeon runtime) is exercised behaviourally by C15/C10/C11"},
		Run:          runC20,
		Workers:      1,
		NeedsOverlay: "add",
	})
}

func repoDir() string {
	if d := os.Getenv("VERIF_REPO"); d != "" {
		return d
	}
	return "/repo"
}

func runC20(c *eng.Ctx) {
	st, problems := pegcmp.Compare(repoDir())
	c.R.States = int64(st.Pairs)
	c.R.Transitions = int64(st.Edges + st.RuneChecks)
	c.R.Evaluations = int64(st.Pairs)
	c.R.Nontrivial = int64(st.Pairs)
	c.R.Traces = int64(st.Pairs)
	c.MaxOf("rules", int64(st.Rules))
	c.MaxOf("actions_and_predicates", int64(st.Actions))
	c.MaxOf("rune_membership_checks", int64(st.RuneChecks))
	for _, n := range st.Notes {
		c.Note(n)
	}
	for _, s := range st.Samples {
		c.Sample(s)
	}
	for _, p := range problems {
		c.Violate(eng.Violation{Kind: "grammar-table-differs", Key: p.Path + ": " + firstLine(p.Msg), Detail: p.Msg})
	}
	// the rule table as it exists at run time (unicode tables really returned by the engine's helper), all runes again
	var rt []pegcmp.RuntimeClass
	for _, vc := range grammar.VerifClasses() {
		rt = append(rt, pegcmp.RuntimeClass{Val: vc.Val, Chars: vc.Chars, Ranges: vc.Ranges, Tables: vc.Classes, IgnoreCase: vc.IgnoreCase, Inverted: vc.Inverted})
	}
	n, rp := pegcmp.CompareRuntimeClasses(repoDir(), rt)
	c.R.Transitions += int64(n)
	c.MaxOf("runtime_class_matchers", int64(len(rt)))
	c.MaxOf("runtime_rune_membership_checks", int64(n))
	for _, p := range rp {
		c.Violate(eng.Violation{Kind: "runtime-class-differs", Key: p.Path + ": " + firstLine(p.Msg), Detail: p.Msg})
	}
	if st.Pairs == 0 && len(problems) == 0 {
		c.Violate(eng.Violation{Kind: "nothing-compared", Key: "no node pairs", Detail: fmt.Sprint(st)})
	}
}

func firstLine(s string) string {
	for i := 0; i < len(s); i++ {
		if s[i] == '\n' {
			return s[:i]
		}
	}
	return s
}
