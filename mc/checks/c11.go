//go:build verif

package checks

import (
	"bytes"
	"fmt"
	"math"
	"strconv"
	"strings"

	bexpr "github.com/hashicorp/go-bexpr"
	"github.com/hashicorp/go-bexpr/grammar"

	"verifmc/eng"
	"verifmc/vrt"
)

func init() {
	eng.Register(&eng.Check{
		ID:           "C11",
		Rule:         "E2 + overlay accessor (grammar.VerifParse returns the parser's step counter): inputs = every token sequence of <=2 tokens (thorough <=3) of the C15 alphabet, the C15 derivation set, invalid variants, long inputs (300..4000 bytes) whose syntax error is found early or that are valid, and nested parentheses of depth 0..6 (thorough 0..8 unlimited, 9..11 limited-only) x budgets n: EVERY n in 1..N+2 when N<=600 (N = step count of the unlimited parse), otherwise {1,2,3, N/2, N-2..N+2, 2N, 2^64-1} and all powers of two <= 2^22; oracle: n=0 or n>=N gives exactly the unlimited result (same tree dump / same error text); 0<n<N gives a nil value and the max-expressions error (its text is learned from a budget-1 parse, not hard-coded); a limited parse executes at most n+1 steps - by the parser's own counter AND by an independent count (the overlay hooks every entry of parseExpr, over all parser instances of the process); budgets around the input LENGTH (len-1, len, len+1, (N+len)/2) are always included; CreateEvaluator(WithMaxExpressions(n)) fails iff grammar.Parse(MaxExpressions(n)) fails, and with the same error text; deep nesting is rejected within the budget (steps measured, no wall-clock oracle); the option given twice behaves as its last occurrence; concurrent creations under different budgets each keep their own (E3 schedule exploration of 2x1, 3x1, 2x2 creations, as in C12). Distinct by construction; non-trivial = (input, n) pairs with 0<n<N+3 (around or below the threshold).",
		Assumptions:  []string{"read-only accessor added by the generated overlay (build tag verif); /repo is not modified", "bounded input set and budget sweep as stated"},
		Run:          runC11,
		NeedsOverlay: "full",
		Finalize:     c11Finalize,
	})
}

type c11Res struct {
	dump     string
	errText  string
	isNil    bool
	steps    uint64 // the parser's own counter
	indep    uint64 // entries of parseExpr counted by the overlay hook, over ALL parser instances used during the call (0 = hook not attached)
	panicked string
}

func c11Parse(in []byte, opts ...grammar.Option) (r c11Res) {
	defer func() {
		if p := recover(); p != nil {
			r.panicked = fmt.Sprint(p)
		}
	}()
	before := vrt.ParseSteps
	defer func() { r.indep = vrt.ParseSteps - before }()
	v, err, steps := grammar.VerifParse(in, opts...)
	r.steps = steps
	if err != nil {
		r.errText = err.Error()
	}
	r.isNil = v == nil
	if e, ok := v.(grammar.Expression); ok && e != nil {
		var b bytes.Buffer
		e.ExpressionDump(&b, " ", 0)
		r.dump = b.String()
	} else if v != nil {
		r.dump = fmt.Sprintf("%#v", v)
	}
	return
}

func c11Inputs(thorough bool) []string {
	var ins []string
	seen := map[string]bool{}
	add := func(s string) {
		if !seen[s] {
			seen[s] = true
			ins = append(ins, s)
		}
	}
	add("")
	for _, d := range c15Derivations(thorough) {
		add(d)
		add(d + " )")
		add(strconv.Quote(d)) // the whole input one string literal (not an expression)
		add("(" + d)
	}
	for _, t := range c15Tokens {
		add(t)
		for _, u := range c15Tokens {
			add(t + " " + u)
			add(t + u)
			if thorough {
				for _, w := range []string{"a", "1", "==", "(", "\"s\"", "is", "not", "{"} {
					add(t + " " + u + " " + w)
				}
			}
		}
	}
	// long inputs whose syntax error is found early (step count far below the byte length) and long valid inputs
	for _, n := range []int{300, 700, 2048} {
		add("a == 1 " + strings.Repeat("# ", n))
		add("# " + strings.Repeat("a ", n))
		add("a == `" + strings.Repeat("x", 2*n) + "`")
		add("a == 1 and " + strings.Repeat("b == 2 and ", n/20) + "c == 3 ;" + strings.Repeat(" ", n))
	}
	add("a == \"\\x\"")
	add("a == `\xff`")
	return ins
}

func runC11(c *eng.Ctx) {
	hookMissing := false
	// the budget belongs to the creation it was given to, also when creations overlap: E3 schedule exploration of concurrent creations
	// under different budgets (scenario coordinates s=0.. are disjoint from the input coordinates i=..)
	if _, other := c.Only["i"]; !other {
		c12RunScenarios(c, c12BudgetScenarios())
	}
	ins := c11Inputs(c.Thorough())
	maxUnlimitedDepth, maxDepth := 6, 8
	if c.Thorough() {
		maxUnlimitedDepth, maxDepth = 8, 11
	}
	for d := 0; d <= maxDepth; d++ {
		ins = append(ins, strings.Repeat("(", d)+"a == 1"+strings.Repeat(")", d))
	}
	nPlain := len(ins) - (maxDepth + 1)
	// learn the max-expressions message from a budget-1 parse of a non-trivial input
	learned := c11Parse([]byte("a == 1"), grammar.MaxExpressions(1))
	if learned.errText == "" || !learned.isNil {
		if c.Mine(0) {
			c.Violate(eng.Violation{Kind: "budget-1-not-rejected", Key: "input=\"a == 1\" n=1", Expected: "nil value and an error", Observed: fmt.Sprintf("nil=%v err=%q", learned.isNil, learned.errText)})
		}
		return
	}
	maxMsg := learned.errText
	// the message may carry a position prefix; the stable part is after the last ": "
	if i := strings.LastIndex(maxMsg, ": "); i >= 0 {
		maxMsg = maxMsg[i+2:]
	}
	c.Note("learned max-expressions message: " + maxMsg)

	for ii, in := range ins {
		if !c.Mine(ii) || !c.Want("i", ii) {
			continue
		}
		if c.Expired() {
			return
		}
		depth := -1
		if ii >= nPlain {
			depth = ii - nPlain
		}
		var base c11Res
		var N uint64
		_ = hookMissing
		unlimited := depth <= maxUnlimitedDepth
		if unlimited {
			base = c11Parse([]byte(in))
			c.R.Evaluations++
			if base.panicked != "" {
				c.Violate(eng.Violation{Kind: "panic", Key: fmt.Sprintf("input=%q unlimited", in), Coords: map[string]int{"i": ii}, Observed: base.panicked})
				continue
			}
			N = base.steps
			c.MaxOf("max_N", int64(N))
			if base.steps > 0 && base.indep == 0 && !hookMissing {
				hookMissing = true // not an alarm: the bound is then only checked against the parser's own counter
				c.Cap(fmt.Sprintf("shard %d: the overlay did not attach the independent step counter to (*parser).parseExpr (see .build/vinstr-full.log)", c.Shard))
			}
			c.MaxOf("max_independent_steps", int64(base.indep))
		}
		var budgets []uint64
		if unlimited && N <= 600 {
			for n := uint64(0); n <= N+2; n++ {
				budgets = append(budgets, n)
			}
			budgets = append(budgets, 2*N, math.MaxUint64)
			// budgets around the LENGTH of the input (a shortcut that reasons about bytes instead of steps shows between N and len)
			if L := uint64(len(in)); L > N+2 {
				budgets = append(budgets, (N+L)/2, L-1, L, L+1)
			}
		} else {
			set := map[uint64]bool{0: unlimited, 1: true, 2: true, 3: true}
			if unlimited {
				for _, n := range []uint64{N / 2, N - 2, N - 1, N, N + 1, N + 2, 2 * N, math.MaxUint64} {
					set[n] = true
				}
			}
			for k := uint(0); k <= 22; k++ {
				set[1<<k] = true
			}
			if L := uint64(len(in)); L > 1 {
				set[L-1], set[L], set[L+1] = true, true, true
				if unlimited {
					set[(N+L)/2] = true
				}
			}
			for n, ok := range set {
				if ok {
					budgets = append(budgets, n)
				}
			}
		}
		for _, n := range budgets {
			if !c.Want("n", int(n%(1<<31))) {
				continue
			}
			r := c11Parse([]byte(in), grammar.MaxExpressions(n))
			c.R.Evaluations++
			c.R.States++
			c.R.Traces++
			co := map[string]int{"i": ii, "n": int(n % (1 << 31))}
			key := fmt.Sprintf("input=%q n=%d", in, n)
			if r.panicked != "" {
				c.Violate(eng.Violation{Kind: "panic", Key: key, Coords: co, Observed: r.panicked})
				continue
			}
			if n != 0 && n != math.MaxUint64 && r.indep > n+1 {
				c.Violate(eng.Violation{Kind: "budget-overrun-independent-count", Key: key, Coords: co, Expected: fmt.Sprintf("<= %d parser steps", n+1),
					Observed: fmt.Sprintf("%d entries of parseExpr during the call (the parser's own counter says %d)", r.indep, r.steps)})
			}
			if n != 0 && n != math.MaxUint64 && r.steps > n+1 {
				c.Violate(eng.Violation{Kind: "budget-overrun", Key: key, Coords: co, Expected: fmt.Sprintf("<= %d steps", n+1), Observed: fmt.Sprintf("%d steps", r.steps)})
			}
			// evaluator creation agrees with the parser under the same budget
			_, cerr := createSafe(in, []bexpr.Option{bexpr.WithMaxExpressions(n)})
			c.R.Evaluations++
			if (cerr != nil) != (r.errText != "") {
				c.Violate(eng.Violation{Kind: "create-vs-parse-under-budget", Key: key, Coords: co, Expected: fmt.Sprintf("CreateEvaluator fails=%v", r.errText != ""), Observed: fmt.Sprintf("err=%v", cerr)})
			} else if cerr != nil && cerr.Error() != r.errText && !strings.HasPrefix(cerr.Error(), "PANIC") {
				// ... and fails FOR THE SAME REASON (a syntax error must not be reported as an exhausted budget or vice versa)
				c.Violate(eng.Violation{Kind: "create-vs-parse-error-under-budget", Key: key, Coords: co, Expected: r.errText, Observed: cerr.Error()})
			}
			if !unlimited {
				// deep nesting: only bounded work and a well-formed verdict are required
				if r.errText == "" && r.isNil {
					c.Violate(eng.Violation{Kind: "neither-value-nor-error", Key: key, Coords: co})
				}
				c.Count("deep-limited-only")
				continue
			}
			if n > 0 && n < N+3 {
				c.R.Nontrivial++
			}
			if n == 0 || n >= N {
				if r.dump != base.dump || r.errText != base.errText || r.isNil != base.isNil {
					c.Violate(eng.Violation{Kind: "sufficient-budget-changes-result", Key: key, Coords: co, Expected: fmt.Sprintf("as unlimited (N=%d): err=%q tree=%q", N, base.errText, base.dump), Observed: fmt.Sprintf("err=%q tree=%q", r.errText, r.dump)})
				} else {
					c.Count("n>=N: same as unlimited")
				}
			} else {
				if !r.isNil || !strings.Contains(r.errText, maxMsg) {
					c.Violate(eng.Violation{Kind: "insufficient-budget-not-rejected", Key: key, Coords: co, Expected: fmt.Sprintf("nil value, error containing %q (N=%d)", maxMsg, N), Observed: fmt.Sprintf("nil=%v err=%q", r.isNil, r.errText)})
				} else {
					c.Count("0<n<N: max-expressions error")
				}
			}
		}
		// the budget option given twice: only the last one counts (0 lifts an earlier budget, a small one replaces a large one)
		if unlimited && N > 2 && N < 5000 {
			for _, pair := range [][2]uint64{{1, 0}, {N - 1, 0}, {0, N - 1}, {N - 1, N}, {N, N - 1}, {N + 5, 1}, {1, N + 5}, {math.MaxUint64, N - 1}} {
				_, e2 := createSafe(in, []bexpr.Option{bexpr.WithMaxExpressions(pair[0]), bexpr.WithMaxExpressions(pair[1])})
				_, e1 := createSafe(in, []bexpr.Option{bexpr.WithMaxExpressions(pair[1])})
				c.R.Evaluations += 2
				c.R.States++
				c.R.Traces++
				if (e1 == nil) != (e2 == nil) || (e1 != nil && e1.Error() != e2.Error()) {
					c.Violate(eng.Violation{Kind: "repeated-budget-option", Key: fmt.Sprintf("input=%q budgets=(%d then %d)", in, pair[0], pair[1]), Coords: map[string]int{"i": ii},
						Expected: fmt.Sprintf("as the single budget %d: err=%v", pair[1], e1), Observed: fmt.Sprintf("err=%v", e2)})
				} else {
					c.Count("repeated budget option: last wins")
				}
			}
		}
		if len(c.R.Samples) < 3 && N > 0 {
			c.Sample(map[string]any{"input": in, "N": N, "budgets": len(budgets)})
		}
	}
}
