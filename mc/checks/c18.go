package checks

import (
	"fmt"
	"math"
	"strings"

	bexpr "github.com/hashicorp/go-bexpr"

	"verifmc/eng"
	. "verifmc/model"
)

func init() {
	eng.Register(&eng.Check{
		ID:          "C18",
		Rule:        "E1 over configurations: ALL option sequences of length <=3 (thorough <=4) over the alphabet {WithTagName bexpr|json|\"\"; WithHookFn nil|identity|unwrap-wrapper|constant-42; WithUnknownValue 0|\"\"|\"a\"|json.Number(1e0); WithMaxExpressions 0|N+1|2^64-1|N-1; a nil Option} (16 letters: every subset, order and repetition) x expressions x data exercising tags, wrapper values and absent keys; oracle: creation fails iff the effective (last) budget is N-1, otherwise the outcome of the 1st, 2nd and 3rd Evaluate equals the reference under the EFFECTIVE configuration (last occurrence of each option wins; order of distinct options irrelevant; neutral settings equal absence). N is found per expression by bisection over the public option. Distinct by construction; non-trivial = sequence with >=2 non-nil options.",
		Assumptions: []string{"reference interpreter as C01 incl. the hook family written in the idiom of the repository's tests", "N (parser step count) located by bisection, monotonicity itself is C11's business"},
		Run:         runC18,
	})
}

type optLetter struct {
	name string
	kind int // 0 tag, 1 hook, 2 unknown, 3 budget, 4 nil
	tag  string
	hook int
	unk  *Node
	bud  int // 0: 0, 1: N+1, 2: max, 3: N-1
}

func c18Alphabet() []optLetter {
	return []optLetter{
		{name: "Tag(bexpr)", kind: 0, tag: "bexpr"}, {name: "Tag(json)", kind: 0, tag: "json"}, {name: "Tag(\"\")", kind: 0, tag: ""},
		// a legal struct-tag key that begins with punctuation and ends with a combining mark (NFD e-acute)
		{name: "Tag(-e+U+0301)", kind: 0, tag: "-e\u0301"},
		{name: "Hook(nil)", kind: 1, hook: HookNone}, {name: "Hook(identity)", kind: 1, hook: HookIdentity}, {name: "Hook(unwrap)", kind: 1, hook: HookUnwrap}, {name: "Hook(const42)", kind: 1, hook: HookConst},
		{name: "Unknown(0)", kind: 2, unk: NInt(KInt, false, 0)}, {name: "Unknown(\"\")", kind: 2, unk: str("")}, {name: "Unknown(a)", kind: 2, unk: str("a")},
		// a json.Number unknown value is the NUMBER it spells (== 1 holds, is empty errors), exactly as when a document holds it
		{name: "Unknown(json.Number 1e0)", kind: 2, unk: NJSON("1e0")},
		{name: "Max(0)", kind: 3, bud: 0}, {name: "Max(N+1)", kind: 3, bud: 1}, {name: "Max(2^64-1)", kind: 3, bud: 2}, {name: "Max(N-1)", kind: 3, bud: 3},
		{name: "nil", kind: 4},
	}
}

var c18Exprs = []string{
	"a == 1", "a == 2", "a == 3", "a == 42", "a == 0", "a == `a`", "a == ``", "a is empty", "a != 1", "ja == 2", "A == 1", "m.c == 1", "m.c != 1", "m.b == 1", "m.c is empty",
	"any m as k, v { v == 1 }", "all m as k { k != `b` }", "w.x == 1", "w == 1", "`x` in w", "a == 1 or zz == 0", "not (a == 42)", "l.0 == 1", "any l as x { x == 42 }", "zz matches `a`",
	"w.c == 1", "w.c != 1", "w.c is empty", "any l as x { x == 1 }", "all l as i, x { x == 1 or x == 42 }", "any w as k, v { v == 1 }", "l.0.c == 1",
	"any a as x { x == 1 }", "all a as x { x == 1 }", "all zz as x { x == 1 }", "any m.c as k { k == `a` }",
}

func c18Docs() []*Node {
	mp := func(kv ...*Node) *Node { return NMap(TStr, TAny, kv...) }
	two, three := NInt(KInt, false, 2), NInt(KInt, false, 3)
	return []*Node{
		NStruct(F{Name: "A", Tag: `bexpr:"a" json:"ja"`, V: NAny(one)}, F{Name: "J", Tag: `json:"a" bexpr:"-"`, V: NAny(two)}, F{Name: "P", Tag: "pointer:\"a\" json:\"pa\" -e\u0301:\"a\"", V: NAny(three)},
			F{Name: "M", Tag: `bexpr:"m" json:"m" pointer:"m"`, V: mp(str("b"), one)}),
		mp(str("a"), NWrapper(one), str("w"), NWrapper(mp(str("x"), one)), str("m"), mp(str("b"), NWrapper(one))),
		mp(str("a"), one, str("m"), mp(str("b"), one), str("w"), mp(str("x"), one), str("l"), NSlice(TAny, one)),
		mp(),
		mp(str("m"), mp(), str("w"), NWrapper(NNilAny()), str("a"), str("a")),
		mp(str("a"), NInt(KInt, false, 42), str("w"), one, str("l"), NSlice(TAny, NWrapper(one), NInt(KInt, false, 42))),
		NPtr(NStruct(F{Name: "A", V: NAny(NWrapper(str("")))}, F{Name: "W", Tag: `bexpr:"w" json:"w" pointer:"w"`, V: NWrapper(mp(str("x"), NWrapper(one)))})),
		mp(str("a"), str(""), str("m"), mp(str("c"), one)),
		mp(str("l"), NSlice(TAny, NWrapper(mp(str("x"), one)), NWrapper(one)), str("w"), NWrapper(mp(str("x"), NWrapper(one)))),
		mp(str("l"), NSlice(NWrapper(one).T, NWrapper(one), NWrapper(NInt(KInt, false, 42))), str("w"), NPtr(NWrapper(mp(str("c"), one)))),
		// selectors that RESOLVE to nil / zero values (an unknown value must not replace them)
		mp(str("a"), NNilAny(), str("m"), mp(str("c"), NNilAny(), str("b"), NNilAny()), str("w"), mp(str("x"), NNilAny(), str("c"), NNilPtr(TInt)), str("l"), NSlice(TAny, NNilAny())),
		mp(str("a"), NInt(KInt, false, 0), str("m"), mp(str("c"), str("")), str("w"), mp(str("c"), NInt(KInt, false, 0)), str("zz"), str("")),
	}
}

// stepCount finds N for src: the smallest budget under which creation succeeds (0 < n).
func stepCount(src string) uint64 {
	lo, hi := uint64(1), uint64(1)
	for {
		if _, err := bexpr.CreateEvaluator(src, bexpr.WithMaxExpressions(hi)); err == nil {
			break
		}
		lo = hi + 1
		hi *= 2
		if hi > 1<<40 {
			return 0
		}
	}
	for lo < hi {
		mid := lo + (hi-lo)/2
		if _, err := bexpr.CreateEvaluator(src, bexpr.WithMaxExpressions(mid)); err == nil {
			hi = mid
		} else {
			lo = mid + 1
		}
	}
	return lo
}

type c18parsed struct {
	e any
	n uint64
}

func runC18(c *eng.Ctx) {
	alpha := c18Alphabet()
	maxLen := 3
	if c.Thorough() {
		maxLen = 4
	}
	ds := c18Docs()
	data := make([]interface{}, len(ds))
	for i, d := range ds {
		data[i] = Build(d).Interface()
	}
	// harness-side ASTs of the expressions come from the reference grammar-free constructors: parse them with a tiny table
	asts := c18ASTs()
	var ps []c18parsed
	for i, src := range c18Exprs {
		if Render(asts[i]) == "" {
			panic("ast")
		}
		ps = append(ps, c18parsed{asts[i], stepCount(src)})
	}
	refCache := map[string]int{}
	refOf := func(xi, di int, cfg Cfg) int {
		k := fmt.Sprintf("%d|%d|%s", xi, di, cfg)
		if v, ok := refCache[k]; ok {
			return v
		}
		v := NewRef(ds[di], cfg).Eval(ps[xi].e, nil)
		refCache[k] = v
		return v
	}
	// enumerate sequences
	var seq []int
	idx := 0
	var rec func()
	rec = func() {
		idx++
		if c.Mine(idx) && c.Want("q", idx) && !c.Expired() {
			c18Run(c, idx, seq, alpha, ps, ds, data, refOf)
		}
		if len(seq) == maxLen {
			return
		}
		for i := range alpha {
			seq = append(seq, i)
			rec()
			seq = seq[:len(seq)-1]
		}
	}
	rec()
}

func c18Run(c *eng.Ctx, qi int, seq []int, alpha []optLetter, ps []c18parsed, ds []*Node, data []interface{}, refOf func(xi, di int, cfg Cfg) int) {
	var names []string
	eff := Cfg{Tag: "bexpr"}
	bud := 0
	nonNil := 0
	for _, li := range seq {
		l := alpha[li]
		names = append(names, l.name)
		switch l.kind {
		case 0:
			eff.Tag = l.tag
		case 1:
			eff.Hook = l.hook
		case 2:
			eff.Unknown = l.unk
		case 3:
			bud = l.bud
		}
		if l.kind != 4 {
			nonNil++
		}
	}
	seqName := "[" + strings.Join(names, ", ") + "]"
	for xi, src := range c18Exprs {
		if !c.Want("x", xi) {
			continue
		}
		var opts []bexpr.Option
		for _, li := range seq {
			l := alpha[li]
			switch l.kind {
			case 0:
				opts = append(opts, bexpr.WithTagName(l.tag))
			case 1:
				opts = append(opts, bexpr.WithHookFn(hookFn(l.hook)))
			case 2:
				opts = append(opts, bexpr.WithUnknownValue(Build(l.unk).Interface()))
			case 3:
				n := ps[xi].n
				b := []uint64{0, n + 1, math.MaxUint64, n - 1}[l.bud]
				opts = append(opts, bexpr.WithMaxExpressions(b))
			case 4:
				opts = append(opts, nil)
			}
		}
		ev, err := createSafe(src, opts)
		scribble(opts) // the caller recycles its slice: the evaluator must not depend on it any more
		c.R.Evaluations++
		c.R.States++
		c.R.Traces++
		if nonNil >= 2 {
			c.R.Nontrivial++
		}
		co := map[string]int{"q": qi, "x": xi}
		key := "options=" + seqName + " | expr=" + src
		wantFail := bud == 3 && ps[xi].n > 1
		if wantFail != (err != nil) || (err == nil) == (ev == nil) {
			c.Violate(eng.Violation{Kind: "creation-outcome", Key: key, Coords: co, Expected: fmt.Sprintf("creation fails=%v (N=%d)", wantFail, ps[xi].n), Observed: fmt.Sprintf("err=%v evaluator-nil=%v", err, ev == nil)})
			continue
		}
		if err != nil {
			c.Count("creation-fails-under-budget")
			continue
		}
		if ev.Expression() != src {
			c.Violate(eng.Violation{Kind: "expression-string", Key: key, Coords: co, Expected: src, Observed: ev.Expression()})
		}
		for di := range ds {
			want := refOf(xi, di, eff)
			for call := 0; call < 3; call++ {
				got := observe(ev, data[di])
				c.R.Evaluations++
				if got.panicked || got.class&want == 0 {
					c.Violate(eng.Violation{Kind: "effective-configuration-mismatch", Key: key + " | datum=" + ds[di].String() + fmt.Sprintf(" | call=%d", call+1), Coords: co,
						Case: map[string]any{"options": names, "expression": src, "datum": ds[di].String(), "effective": eff.String()}, Expected: SetStr(want) + " under " + eff.String(), Observed: got.String(), Detail: got.msg})
					break
				}
			}
		}
	}
	if len(c.R.Samples) < 3 && len(seq) >= 3 {
		c.Sample(map[string]any{"options": names, "effective": eff.String(), "expressions": len(c18Exprs), "data": len(ds)})
	}
}

func createSafe(src string, opts []bexpr.Option) (ev *bexpr.Evaluator, err error) {
	defer func() {
		if r := recover(); r != nil {
			ev, err = nil, fmt.Errorf("PANIC: %v", r)
		}
	}()
	return bexpr.CreateEvaluator(src, opts...)
}

// harness ASTs of c18Exprs (same order)
func c18ASTs() []any {
	m := func(op int, lit string, sel ...string) *Match { return &Match{Sel: sel, Op: op, Lit: lit} }
	return []any{
		m(OpEq, "1", "a"), m(OpEq, "2", "a"), m(OpEq, "3", "a"), m(OpEq, "42", "a"), m(OpEq, "0", "a"), m(OpEq, "a", "a"), m(OpEq, "", "a"), m(OpEmpty, "", "a"), m(OpNe, "1", "a"),
		m(OpEq, "2", "ja"), m(OpEq, "1", "A"), m(OpEq, "1", "m", "c"), m(OpNe, "1", "m", "c"), m(OpEq, "1", "m", "b"), m(OpEmpty, "", "m", "c"),
		&Quant{All: false, Sel: []string{"m"}, Mode: BindBoth, Idx: "k", Val: "v", Body: m(OpEq, "1", "v")},
		&Quant{All: true, Sel: []string{"m"}, Mode: BindDefault, Val: "k", Body: m(OpNe, "b", "k")},
		m(OpEq, "1", "w", "x"), m(OpEq, "1", "w"), m(OpIn, "x", "w"),
		&Bin{Or: true, L: m(OpEq, "1", "a"), R: m(OpEq, "0", "zz")}, &Not{X: m(OpEq, "42", "a")}, m(OpEq, "1", "l", "0"),
		&Quant{All: false, Sel: []string{"l"}, Mode: BindDefault, Val: "x", Body: m(OpEq, "42", "x")}, m(OpMatches, "a", "zz"),
		m(OpEq, "1", "w", "c"), m(OpNe, "1", "w", "c"), m(OpEmpty, "", "w", "c"),
		&Quant{All: false, Sel: []string{"l"}, Mode: BindDefault, Val: "x", Body: m(OpEq, "1", "x")},
		&Quant{All: true, Sel: []string{"l"}, Mode: BindBoth, Idx: "i", Val: "x", Body: &Bin{Or: true, L: m(OpEq, "1", "x"), R: m(OpEq, "42", "x")}},
		&Quant{All: false, Sel: []string{"w"}, Mode: BindBoth, Idx: "k", Val: "v", Body: m(OpEq, "1", "v")},
		m(OpEq, "1", "l", "0", "c"),
		&Quant{All: false, Sel: []string{"a"}, Mode: BindDefault, Val: "x", Body: m(OpEq, "1", "x")},
		&Quant{All: true, Sel: []string{"a"}, Mode: BindDefault, Val: "x", Body: m(OpEq, "1", "x")},
		&Quant{All: true, Sel: []string{"zz"}, Mode: BindDefault, Val: "x", Body: m(OpEq, "1", "x")},
		&Quant{All: false, Sel: []string{"m", "c"}, Mode: BindDefault, Val: "k", Body: m(OpEq, "a", "k")},
	}
}
