//go:build verif

package checks

import (
	"fmt"
	"reflect"
	"sort"
	"strconv"
	"strings"

	bexpr "github.com/hashicorp/go-bexpr"

	"verifmc/eng"
	. "verifmc/model"
	"verifmc/vrt"
)

func init() {
	eng.Register(&eng.Check{
		ID:           "C14",
		Rule:         "E5 environment-choice explorer on the real code through the generated map-order seam (every reflect.Value.MapKeys call of the two packages answers with a permutation chosen by the explorer): string-keyed maps of n=2..4 entries (thorough ..5) with EVERY assignment of {T,F,E} to the entries' body outcome x any/all x 4 binding modes, map-in-map and list-of-maps nestings, and Filter.Execute over maps; at every seam call ALL n! permutations are explored, depth-first over the sequence of calls (later calls depend on earlier answers through early exit); oracle: one outcome class (true/false/error) per (expression, datum) over all answer sequences, for filters the same kept-key set or the same error-ness; replaying a recorded answer sequence twice must give identical observations. states = (expression, datum) cases, transitions = executions (one per answer sequence); non-trivial = case in which >=2 distinct answer sequences were explored. A history probe re-evaluates every case with a fresh evaluator after all other cases of the shard have run (same-typed data of other shapes, absent leaves under map / struct / slice parents) and demands the first outcome. Sampling complement (not deciding): every case is also repeated 32 times without the seam under the runtime's own random order.",
		Assumptions:  []string{"the seam covers reflect.Value.MapKeys calls in /repo's two packages (generated from the working tree; other map-iteration constructs are listed by the generator and only covered by the sampling complement)", "bounded map sizes"},
		Run:          runC14,
		NeedsOverlay: "full",
	})
}

func c14Collection(pat []int, valued bool) *Node {
	// entries k0..kn-1 whose body outcome for `v == 1` is T (1), F (2), E (nil)
	two := NInt(KInt, false, 2)
	var kv []*Node
	for i, p := range pat {
		kv = append(kv, str("k"+strconv.Itoa(i)), pick(p, one, two, NNilAny()))
	}
	return NMap(TStr, TAny, kv...)
}

type c14Case struct {
	src   string
	datum *Node
	what  string
}

func c14Cases(thorough bool) []c14Case {
	var out []c14Case
	maxN := 4
	if thorough {
		maxN = 5
	}
	v1 := func(v string) string { return v + " == 1" }
	for n := 2; n <= maxN; n++ {
		for _, pat := range patterns(3, n)[lenPrefix(3, n):] {
			m := c14Collection(pat, true)
			d := NMap(TStr, TAny, str("m"), m)
			for _, q := range []string{"any", "all"} {
				out = append(out,
					c14Case{q + " m as k, v { " + v1("v") + " }", d, "index+value"},
					c14Case{q + " m as _, v { " + v1("v") + " }", d, "value"},
				)
				if n <= 3 || thorough {
					// key-bound bodies: outcome depends on the key; T for k0, error for a sub-path of a key
					out = append(out,
						c14Case{q + " m as k { k == `k0` }", d, "default(key)"},
						c14Case{q + " m as k, _ { k == `k1` or m.k0 == 1 }", d, "index"},
						c14Case{q + " m as k, v { k.x == 1 or " + v1("v") + " }", d, "key-subpath-error"},
					)
				}
			}
		}
	}
	// the same with maps whose element type is concrete, not interface{}: *int elements (nil = error), []int elements (v.0 errors on an
	// empty one), struct elements holding an interface
	for n := 2; n <= 3; n++ {
		for _, pat := range patterns(3, n)[lenPrefix(3, n):] {
			two := NInt(KInt, false, 2)
			var pk, lk, sk []*Node
			for i, p := range pat {
				k := str("k" + strconv.Itoa(i))
				pk = append(pk, k, pick(p, NPtr(one), NPtr(two), NNilPtr(TInt)))
				lk = append(lk, k, pick(p, NSlice(TInt, one), NSlice(TInt, two), NSlice(TInt)))
				sk = append(sk, k, NStruct(F{Name: "V", V: NAny(pick(p, one, two, NNilAny()))}))
			}
			ptrT := &Type{K: KPtr, Elem: TInt}
			for _, q := range []string{"any", "all"} {
				out = append(out,
					c14Case{q + " m as k, v { v == 1 }", NMap(TStr, TAny, str("m"), NMap(TStr, ptrT, pk...)), "typed-elements(*int)"},
					c14Case{q + " m as _, v { v.0 == 1 }", NMap(TStr, TAny, str("m"), NMap(TStr, NSlice(TInt).T, lk...)), "typed-elements([]int)"},
					c14Case{q + " m as _, v { v.V == 1 }", NMap(TStr, TAny, str("m"), NMap(TStr, sk[1].T, sk...)), "typed-elements(struct)"},
				)
			}
		}
	}
	// key NAMES that collide under plausible normalisations (numeric value, case folding, trimming, length, a bounded prefix, Unicode
	// equivalence): an ordering that is only a preorder on such keys leaves their relative order to the map iteration
	long := strings.Repeat("k", 40)
	keySets := [][]string{
		{"7", "07", "+7", "007"}, {"0", "-0", "+0", "00"}, {"k", "K", "\u212a", " k"}, {"a", " a", "a ", "a\t"}, {"", "a", "aa", "aaa"}, {"ab", "ba", "Ab", "bA"},
		{long + "1", long + "2", long + "3", long + "4"}, {"10", "9", "x", "1e1"}, {"1.0", "1", "1.", "01.0"}, {"\u00e9", "e\u0301", "e", "E"}, {"a/b", "a~1b", "a.b", "a~b"},
	}
	maxK := 4
	for _, ks := range keySets {
		for n := 2; n <= maxK; n++ {
			for _, pat := range patterns(3, n)[lenPrefix(3, n):] {
				two := NInt(KInt, false, 2)
				var kv []*Node
				// the colliding keys are used from the END of the set for n=2 as well (both pairs of neighbours get covered over n=2,3)
				for i, p := range pat {
					kv = append(kv, str(ks[(i+n)%len(ks)]), pick(p, one, two, NNilAny()))
				}
				d := NMap(TStr, TAny, str("m"), NMap(TStr, TAny, kv...))
				for _, q := range []string{"any", "all"} {
					out = append(out, c14Case{q + " m as _, v { v == 1 }", d, "colliding-key-names"})
				}
			}
		}
	}
	// maps whose key type is not exactly string (quantifiers over them are documented errors; whatever the
	// implementation does with them must still not depend on the iteration order)
	for n := 2; n <= 3; n++ {
		for _, pat := range patterns(3, n)[lenPrefix(3, n):] {
			two := NInt(KInt, false, 2)
			var ik, nk, ak, uk []*Node
			for i, p := range pat {
				v := pick(p, one, two, NNilAny())
				ik = append(ik, NInt(KInt, false, int64(i+1)), v)
				nk = append(nk, NStr(true, "k"+strconv.Itoa(i)), v)
				ak = append(ak, str("k"+strconv.Itoa(i)), v)
				uk = append(uk, NUint(KUint8, false, uint64(i)), v)
			}
			for _, m := range []*Node{NMap(TInt, TAny, ik...), NMap(Sc(KString, true), TAny, nk...), NMap(TAny, TAny, ak...), NMap(Sc(KUint8, false), TAny, uk...)} {
				d := NMap(TStr, TAny, str("m"), m)
				for _, q := range []string{"any", "all"} {
					out = append(out, c14Case{q + " m as k, v { v == 1 }", d, "non-string-keys"}, c14Case{q + " m as k { k == 1 or k == `k0` }", d, "non-string-keys"})
				}
			}
		}
	}
	// determinism beyond iteration order: the same expression on same-typed data whose absent leaf sits under a map
	// (not present) resp. under a struct / slice (error); re-evaluated after all other cases have run (see the history probe)
	for _, parent := range []*Node{NMap(TStr, TAny, str("q"), one), NStruct(F{Name: "Q", V: one}), NSlice(TAny, one), NMap(TStr, TAny)} {
		d := NMap(TStr, TAny, str("m"), parent, str("l"), NSlice(TAny, parent))
		for _, src := range []string{"m.zz == 1", "m.zz != 1", "m.zz is empty", "l.0.zz == 1", "any l as x { x.zz != 1 }", "all m.zz as x { x == 1 }"} {
			out = append(out, c14Case{src, d, "absent-leaf"})
		}
	}
	// nested: map of maps, list of maps, map of lists
	for _, patO := range patterns(3, 2)[lenPrefix(3, 2):] {
		for _, patI := range patterns(3, 2)[lenPrefix(3, 2):] {
			inner := func(p []int) *Node { return c14Collection(p, true) }
			mm := NMap(TStr, TAny, str("a"), inner(patO), str("b"), inner(patI), str("c"), inner([]int{patO[0], patI[1]}))
			lm := NSlice(TAny, inner(patO), inner(patI))
			d := NMap(TStr, TAny, str("m"), mm, str("l"), lm)
			for _, q := range []string{"any", "all"} {
				for _, q2 := range []string{"any", "all"} {
					out = append(out,
						c14Case{q + " m as _, x { " + q2 + " x as _, v { v == 1 } }", d, "map-in-map"},
						c14Case{q + " l as x { " + q2 + " x as k, v { v == 1 } }", d, "list-of-maps"},
					)
				}
			}
		}
	}
	return out
}

// lenPrefix: number of patterns of length < n in patterns(codes, n)
func lenPrefix(codes, n int) int {
	t, p := 0, 1
	for i := 0; i < n; i++ {
		t += p
		p *= codes
	}
	return t
}

func runC14(c *eng.Ctx) {
	cases := c14Cases(c.Thorough())
	c.MaxOf("cases", int64(len(cases)))
	seamReached := false
	type firstObs struct {
		ci  int
		cls int
	}
	var firsts []firstObs
	for ci, cs := range cases {
		if !c.Mine(ci) || !c.Want("c", ci) {
			continue
		}
		if c.Expired() {
			return
		}
		ev, err := bexpr.CreateEvaluator(cs.src)
		if err != nil {
			c.Violate(eng.Violation{Kind: "harness-expression-rejected", Key: "create: " + cs.src, Detail: err.Error()})
			continue
		}
		datum := Build(cs.datum).Interface()
		outcomes := map[int][]int{}
		var firstChoices []int
		execs := vrt.ExploreChoices(func(ch *vrt.Chooser) {
			vrt.Env = ch
			o := observe(ev, datum)
			vrt.Env = nil
			c.R.Evaluations++
			k := cls3(o)
			if _, ok := outcomes[k]; !ok {
				outcomes[k] = append([]int{}, ch.Choices...)
			}
			if firstChoices == nil {
				firstChoices = append([]int{}, ch.Choices...)
			}
			if len(ch.Choices) > 0 {
				seamReached = true
			}
			c.MaxOf("max_choice_points_per_execution", int64(len(ch.Choices)))
		})
		c.R.States++
		c.R.Transitions += int64(execs)
		c.R.Traces += int64(execs)
		if execs >= 2 {
			c.R.Nontrivial++
		}
		co := map[string]int{"c": ci}
		key := "expr=" + cs.src + " | datum=" + cs.datum.String()
		if len(outcomes) > 1 {
			var desc []string
			for k, seq := range outcomes {
				name := "PANIC"
				if k >= 0 {
					name = v3name[k]
				}
				// replay determinism: the same answer sequence must reproduce the same observation
				r1 := vrt.RunChoices(seq, func(ch *vrt.Chooser) {
					vrt.Env = ch
					o := observe(ev, datum)
					vrt.Env = nil
					ch.Sites = append(ch.Sites, o.String())
				})
				r2 := vrt.RunChoices(seq, func(ch *vrt.Chooser) {
					vrt.Env = ch
					o := observe(ev, datum)
					vrt.Env = nil
					ch.Sites = append(ch.Sites, o.String())
				})
				if r1.Sites[len(r1.Sites)-1] != r2.Sites[len(r2.Sites)-1] {
					c.Note("replay of an answer sequence was not deterministic for " + cs.src)
				}
				desc = append(desc, fmt.Sprintf("%s under map-order answers %v", name, seq))
			}
			sort.Strings(desc)
			c.Violate(eng.Violation{Kind: "outcome-depends-on-map-order", Key: key, Coords: co, Case: map[string]any{"expression": cs.src, "datum": cs.datum.String(), "shape": cs.what},
				Expected: "one outcome class over all iteration orders", Observed: strings.Join(desc, "; ")})
		} else {
			for k := range outcomes {
				if k >= 0 {
					c.Count(cs.what + ":" + v3name[k])
				}
			}
		}
		// sampling complement: free repetitions under the runtime's random order (not the deciding step)
		base := cls3(observe(ev, datum))
		firsts = append(firsts, firstObs{ci, base})
		for r := 0; r < 32; r++ {
			if k := cls3(observe(ev, datum)); k != base {
				c.Violate(eng.Violation{Kind: "outcome-varies-between-repetitions", Key: key, Coords: co, Expected: "same outcome on every repetition", Observed: "outcomes differ between free repetitions"})
				break
			}
		}
		if len(c.R.Samples) < 3 && execs > 2 {
			c.Sample(map[string]any{"expression": cs.src, "datum": cs.datum.String(), "answer_sequences": execs, "first_sequence": firstChoices})
		}
	}
	// history probe: after every other case of this shard has been evaluated (different expressions, same-typed data of
	// other shapes), each case must still give its first outcome with a fresh evaluator
	if !c.Replaying() {
		for _, f := range firsts {
			cs := cases[f.ci]
			ev, err := bexpr.CreateEvaluator(cs.src)
			if err != nil {
				continue
			}
			again := cls3(observe(ev, Build(cs.datum).Interface()))
			c.R.Evaluations++
			if again != f.cls && again >= 0 && f.cls >= 0 {
				c.Violate(eng.Violation{Kind: "outcome-depends-on-earlier-calls", Key: "expr=" + cs.src + " | datum=" + cs.datum.String(), Coords: map[string]int{"c": f.ci},
					Expected: v3name[f.cls] + " (first evaluation in this process)", Observed: v3name[again] + " after the other cases had been evaluated"})
			} else {
				c.Count("history-probe")
			}
		}
	}
	// Filter.Execute over maps: same kept-key set or same error-ness under every order
	fi := 0
	for n := 2; n <= 4; n++ {
		for _, pat := range patterns(3, n)[lenPrefix(3, n):] {
			for _, src := range []string{"f == 1", "f != 1", "f is empty or f == 1"} {
				fi++
				if !c.Mine(fi) || !c.Want("c", -fi) {
					continue
				}
				flt, err := bexpr.CreateFilter(src)
				if err != nil || flt == nil {
					continue
				}
				m := map[string]map[string]interface{}{}
				for i, p := range pat {
					var f interface{} = 1
					if p == vF {
						f = 2
					} else if p == vE {
						f = nil
					}
					m["k"+strconv.Itoa(i)] = map[string]interface{}{"f": f}
				}
				results := map[string][]int{}
				execs := vrt.ExploreChoices(func(ch *vrt.Chooser) {
					vrt.Env = ch
					out := execute(flt, m)
					vrt.Env = nil
					c.R.Evaluations++
					var sig string
					switch {
					case out.panicked != "":
						sig = "PANIC " + out.panicked
					case out.err != nil:
						sig = "error"
					default:
						rv := reflect.ValueOf(out.res)
						var ks []string
						for _, k := range rv.MapKeys() {
							ks = append(ks, k.String())
						}
						sort.Strings(ks)
						sig = "kept " + strings.Join(ks, ",")
					}
					if _, ok := results[sig]; !ok {
						results[sig] = append([]int{}, ch.Choices...)
					}
					if len(ch.Choices) > 0 {
						seamReached = true
					}
				})
				c.R.States++
				c.R.Transitions += int64(execs)
				c.R.Traces += int64(execs)
				if execs >= 2 {
					c.R.Nontrivial++
				}
				if len(results) > 1 {
					var desc []string
					for s, seq := range results {
						desc = append(desc, fmt.Sprintf("%s under %v", s, seq))
					}
					sort.Strings(desc)
					c.Violate(eng.Violation{Kind: "filter-result-depends-on-map-order", Key: fmt.Sprintf("filter=%s | pattern=%v", src, pat), Coords: map[string]int{"c": -fi},
						Expected: "one result over all iteration orders", Observed: strings.Join(desc, "; ")})
				} else {
					c.Count("filter-over-map")
				}
			}
		}
	}
	// Filter.Execute over a map whose same-typed elements differ in SHAPE at the selector's parent (a map there, another map there, nothing
	// there): whatever is remembered about one element must not decide another, in any visiting order
	for n := 2; n <= 4; n++ {
		for _, pat := range patterns(3, n)[lenPrefix(3, n):] {
			for _, src := range []string{"f.b != 1", "f.b == 1", "f.b is empty or f.b == 1"} {
				fi++
				if !c.Mine(fi) || !c.Want("c", -fi) {
					continue
				}
				flt, err := bexpr.CreateFilter(src)
				if err != nil || flt == nil {
					continue
				}
				m := map[string]map[string]interface{}{}
				for i, p := range pat {
					switch p {
					case vT:
						m["k"+strconv.Itoa(i)] = map[string]interface{}{"f": map[string]interface{}{}} // parent is a map without the key
					case vF:
						m["k"+strconv.Itoa(i)] = map[string]interface{}{"f": map[string]interface{}{"b": 1}}
					default:
						m["k"+strconv.Itoa(i)] = map[string]interface{}{} // no parent at all: an error
					}
				}
				results := map[string][]int{}
				execs := vrt.ExploreChoices(func(ch *vrt.Chooser) {
					vrt.Env = ch
					shared, _ := bexpr.CreateFilter(src) // a fresh Filter per explored order: what it remembers comes from THIS order only
					out := execute(shared, m)
					vrt.Env = nil
					c.R.Evaluations++
					var sig string
					switch {
					case out.panicked != "":
						sig = "PANIC " + out.panicked
					case out.err != nil:
						sig = "error"
					default:
						rv := reflect.ValueOf(out.res)
						var ks []string
						for _, k := range rv.MapKeys() {
							ks = append(ks, k.String())
						}
						sort.Strings(ks)
						sig = "kept " + strings.Join(ks, ",")
					}
					if _, ok := results[sig]; !ok {
						results[sig] = append([]int{}, ch.Choices...)
					}
					if len(ch.Choices) > 0 {
						seamReached = true
					}
				})
				c.R.States++
				c.R.Transitions += int64(execs)
				c.R.Traces += int64(execs)
				if execs >= 2 {
					c.R.Nontrivial++
				}
				if len(results) > 1 {
					var desc []string
					for s, seq := range results {
						desc = append(desc, fmt.Sprintf("%s under %v", s, seq))
					}
					sort.Strings(desc)
					c.Violate(eng.Violation{Kind: "filter-result-depends-on-map-order", Key: fmt.Sprintf("filter=%s | shapes=%v", src, pat), Coords: map[string]int{"c": -fi},
						Expected: "one result over all iteration orders", Observed: strings.Join(desc, "; ")})
				} else {
					c.Count("filter-over-map-of-shapes")
				}
			}
		}
	}
	if c.R.States > 0 && !seamReached && !c.Replaying() {
		// not an alarm: the property may well hold; but the exhaustive part was vacuous and only the sampling complement ran
		c.Cap(fmt.Sprintf("shard %d: no map-order choice point was hit - the generated overlay did not route any map iteration of the code under test through the seam (see .build/vinstr-full.log); only the free-repetition complement covered these cases", c.Shard))
	}
}
