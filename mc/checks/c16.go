package checks

import (
	"fmt"
	"strconv"
	"strings"
	"unicode/utf8"

	bexpr "github.com/hashicorp/go-bexpr"
	"github.com/hashicorp/go-bexpr/grammar"

	"verifmc/eng"
	. "verifmc/model"
	"verifmc/pegref"
)

func init() {
	eng.Register(&eng.Check{
		ID:          "C16",
		Rule:        "E2 print-then-parse: (F1) every match operator x selector paths x literals x EVERY combination of selector spelling (dotted / bracket / JSON pointer), literal style (bare / double-quoted / backtick where legal), in/contains spelling and whitespace style (minimal, one blank, tab-newline-blank, CR-LF); (F2) ALL trees of depth<=2 over 3 leaves and depth 3 over 2 leaves (thorough: 3 leaves), plus and/or chains of 4..7 operands in right-nested, left-nested, balanced and mixed shapes, built from not/and/or and any/all with the 4 binding modes, rendered by a precedence-aware printer that inserts only the required parentheses, in every one of: minimal form, each single node with 1 or 2 redundant parenthesis pairs, every node with one redundant pair (nesting capped at 4), `not not` inserted at each single node, x 4 whitespace styles; (F3) literal fidelity: ALL strings of length<=3 (thorough <=4) over {a / ~ \" ` \\ blank newline CR NUL e-acute 0 - .} in every legal quoting (double-quoted via escapes, backtick, alternative escape spellings); oracle: the parsed tree equals the printed tree (operators, paths, selector type of the chosen spelling, literal text, binding mode and names, shape, `not not e` = e), the literal text equals the string spelled, and `X == <quoted s>` / `<quoted s> in X` are true of X = s. Distinct by construction; non-trivial = rendering with at least one optional choice exercised (everything except the first canonical form of each tree).",
		Assumptions: []string{"the printer is the harness's (it is the property's premise): only parentheses required by not > and > or / right grouping are emitted", "bounded tree depth and string alphabet"},
		Run:         runC16,
	})
}

// ---- printer with explicit choice points ----

type wsStyle struct{ opt, req string } // optional whitespace, required whitespace

var wsStyles = []wsStyle{{"", " "}, {" ", " "}, {"\t\n ", " \n\t"}, {"\r\n", "\r\n  "}}

type rendOpts struct {
	ws        wsStyle
	selSpell  int // 0 dotted, 1 bracket double-quoted, 2 bracket backtick, 3 JSON pointer
	litStyle  int // StyleBacktick / StyleQuoted / StyleBare
	contains  bool
	parenNode int // index (pre-order) of the node that gets extra parentheses (-1 none, -2 all)
	parenN    int
	notnot    int // pre-order index of the node prefixed with `not not` (-1 none)
}

func spellSel(p []string, spell int) (string, int, bool) {
	switch spell {
	case 3:
		for _, x := range p {
			if !jpPartOK(x) {
				return "", 0, false
			}
		}
		return RenderJSONPointer(p), 2, true
	case 0:
		if !identOK(p[0]) {
			return "", 0, false
		}
		s := p[0]
		for _, x := range p[1:] {
			if !identOK(x) && !digitsOK(x) {
				return "", 0, false
			}
			s += "." + x
		}
		return s, 1, true
	default:
		if !identOK(p[0]) || len(p) < 2 {
			return "", 0, false
		}
		s := p[0]
		for _, x := range p[1:] {
			if spell == 1 {
				if strings.Contains(x, "\"") {
					return "", 0, false
				}
				s += "[" + strconv.Quote(x) + "]"
			} else {
				if strings.ContainsAny(x, "`\r") {
					return "", 0, false
				}
				s += "[`" + x + "`]"
			}
		}
		return s, 1, true
	}
}

var numLit = func(s string) bool {
	// -?(0|[1-9][0-9]*)(\.[0-9]+)?
	i := 0
	if i < len(s) && s[i] == '-' {
		i++
	}
	st := i
	for i < len(s) && s[i] >= '0' && s[i] <= '9' {
		i++
	}
	if i == st || (s[st] == '0' && i-st > 1) {
		return false
	}
	if i < len(s) && s[i] == '.' {
		i++
		f := i
		for i < len(s) && s[i] >= '0' && s[i] <= '9' {
			i++
		}
		if i == f {
			return false
		}
	}
	return i == len(s)
}

func spellLit(s string, style int) (string, bool) {
	switch style {
	case StyleBare:
		if numLit(s) || bareSelectorOK(s) {
			return s, true
		}
		return "", false
	case StyleQuoted:
		q := strconv.Quote(s)
		if strings.Contains(q[1:len(q)-1], "\"") {
			return "", false
		}
		// a double-quoted text of the form "/seg/seg" is (also) the JSON-pointer production; its value is the spelled text
		return q, true
	default:
		if strings.ContainsAny(s, "`\r") || !utf8.ValidString(s) {
			return "", false // the input of the parser is UTF-8 text: bytes that are not can only be spelled by an escape
		}
		return "`" + s + "`", true
	}
}

// bareSelectorOK: ident(.ident|.digits)* - an unquoted value of selector shape denotes exactly its spelled text
func bareSelectorOK(s string) bool {
	parts := strings.Split(s, ".")
	if !identOK(parts[0]) {
		return false
	}
	for _, p := range parts[1:] {
		if !identOK(p) && !digitsOK(p) {
			return false
		}
	}
	return true
}

type printer struct {
	o    rendOpts
	node int
	ok   bool
	// expected selector types in pre-order of leaves/quantifiers
}

const (
	precOr = iota
	precAnd
	precNot
	precAtom
)

func precOf(e any) int {
	switch n := e.(type) {
	case *Bin:
		if n.Or {
			return precOr
		}
		return precAnd
	case *Not:
		return precNot
	case *Quant:
		return -1 // needs parentheses everywhere except top level, brace body, right operand of or
	}
	return precAtom
}

// print renders e in a context that requires precedence >= min; quantOK says a bare quantifier is allowed here.
func (p *printer) print(e any, min int, quantOK bool) string {
	idx := p.node
	p.node++
	var s string
	prec := precOf(e)
	switch n := e.(type) {
	case *Match:
		sel, _, ok := spellSel(n.Sel, p.o.selSpell)
		if !ok {
			sel, _, ok = spellSel(n.Sel, 0)
			if !ok {
				sel, _, ok = spellSel(n.Sel, 3)
			}
		}
		p.ok = p.ok && ok
		lit, lok := spellLit(n.Lit, p.o.litStyle)
		if !lok {
			lit, lok = spellLit(n.Lit, StyleBacktick)
			if !lok {
				lit, lok = spellLit(n.Lit, StyleQuoted)
			}
		}
		if n.Op != OpEmpty && n.Op != OpNotEmpty {
			p.ok = p.ok && lok
		}
		w, r := p.o.ws.opt, p.o.ws.req
		switch n.Op {
		case OpEq:
			s = sel + w + "==" + w + lit
		case OpNe:
			s = sel + w + "!=" + w + lit
		case OpIn:
			if p.o.contains {
				s = sel + r + "contains" + r + lit
			} else {
				s = lit + r + "in" + r + sel
			}
		case OpNotIn:
			if p.o.contains {
				s = sel + r + "not" + r + "contains" + r + lit
			} else {
				s = lit + r + "not" + r + "in" + r + sel
			}
		case OpEmpty:
			s = sel + r + "is" + r + "empty"
		case OpNotEmpty:
			s = sel + r + "is" + r + "not" + r + "empty"
		case OpMatches:
			s = sel + r + "matches" + r + lit
		case OpNotMatches:
			s = sel + r + "not" + r + "matches" + r + lit
		}
	case *Not:
		s = "not" + p.o.ws.req + p.print(n.X, precNot, false)
	case *Bin:
		if n.Or {
			s = p.print(n.L, precAnd, false) + p.o.ws.req + "or" + p.o.ws.req + p.print(n.R, precOr, true)
		} else {
			s = p.print(n.L, precNot, false) + p.o.ws.req + "and" + p.o.ws.req + p.print(n.R, precAnd, false)
		}
	case *Quant:
		kw := "any"
		if n.All {
			kw = "all"
		}
		sel, _, ok := spellSel(n.Sel, p.o.selSpell)
		if !ok {
			sel, _, ok = spellSel(n.Sel, 0)
		}
		p.ok = p.ok && ok
		w, r := p.o.ws.opt, p.o.ws.req
		var b string
		switch n.Mode {
		case BindDefault:
			b = n.Val
		case BindIndex:
			b = n.Idx + w + "," + w + "_"
		case BindValue:
			b = "_" + w + "," + w + n.Val
		case BindBoth:
			b = n.Idx + w + "," + w + n.Val
		}
		s = kw + r + sel + r + "as" + r + b + w + "{" + w + p.print(n.Body, precOr, true) + w + "}"
	}
	need := prec < min
	if prec == -1 {
		need = !quantOK
	}
	extra := 0
	if p.o.parenNode == idx || p.o.parenNode == -2 {
		extra = p.o.parenN
	}
	if p.o.notnot == idx {
		// `not not e` binds like a not-level expression: parenthesise e if it is looser than not
		inner := s
		if prec < precNot {
			inner = "(" + p.o.ws.opt + s + p.o.ws.opt + ")"
		}
		s = "not" + p.o.ws.req + "not" + p.o.ws.req + inner
		prec = precNot
		need = prec < min
	}
	for i := 0; i < extra; i++ {
		s = "(" + p.o.ws.opt + s + p.o.ws.opt + ")"
		need = false
	}
	if need {
		s = "(" + p.o.ws.opt + s + p.o.ws.opt + ")"
	}
	return s
}

// expected reference tree of a harness tree under the chosen spellings
func c16Expected(e any, o rendOpts) any {
	selOf := func(p []string) pegref.RSel {
		_, typ, ok := spellSel(p, o.selSpell)
		if !ok {
			_, typ, ok = spellSel(p, 0)
			if !ok {
				_, typ, _ = spellSel(p, 3)
			}
		}
		return pegref.RSel{Type: typ, Path: p}
	}
	switch n := e.(type) {
	case *Match:
		m := &pegref.RMatch{Sel: selOf(n.Sel), Op: n.Op}
		if n.Op != OpEmpty && n.Op != OpNotEmpty {
			l := n.Lit
			m.Val = &l
		}
		return m
	case *Not:
		x := c16Expected(n.X, o)
		if inner, ok := x.(*pegref.RNot); ok {
			return inner.X // double negation folds
		}
		return &pegref.RNot{X: x}
	case *Bin:
		op := 0
		if n.Or {
			op = 1
		}
		return &pegref.RBin{Op: op, L: c16Expected(n.L, o), R: c16Expected(n.R, o)}
	case *Quant:
		b := pegref.RBind{}
		switch n.Mode {
		case BindDefault:
			b = pegref.RBind{Mode: "Default", Default: n.Val}
		case BindIndex:
			b = pegref.RBind{Mode: "Index", Index: n.Idx}
		case BindValue:
			b = pegref.RBind{Mode: "Value", Value: n.Val}
		case BindBoth:
			b = pegref.RBind{Mode: "Index & Value", Index: n.Idx, Value: n.Val}
		}
		op := "ANY"
		if n.All {
			op = "ALL"
		}
		sel := selOf(n.Sel)
		if _, _, ok := spellSel(n.Sel, o.selSpell); !ok {
			sel.Type = 1
		}
		return &pegref.RColl{Op: op, Sel: sel, Bind: b, Inner: c16Expected(n.Body, o)}
	}
	panic("expected")
}

func countNodes(e any) int {
	switch n := e.(type) {
	case *Not:
		return 1 + countNodes(n.X)
	case *Bin:
		return 1 + countNodes(n.L) + countNodes(n.R)
	case *Quant:
		return 1 + countNodes(n.Body)
	}
	return 1
}

func c16Check(c *eng.Ctx, e any, o rendOpts, coords map[string]int, first bool) {
	p := &printer{o: o, ok: true}
	src := p.print(e, precOr, true)
	if !p.ok {
		return
	}
	// nesting cap: every parenthesis level multiplies the real parser's work
	depth, maxd := 0, 0
	for _, ch := range src {
		if ch == '(' {
			depth++
			if depth > maxd {
				maxd = depth
			}
		} else if ch == ')' {
			depth--
		}
	}
	if maxd > 4 {
		return
	}
	want := c16Expected(e, o)
	// a top-level `not not` insertion folds away; a `not` directly under the inserted pair folds too (handled by Expected via Not nodes only)
	got, err, pan := parseSafe([]byte(src))
	c.R.Evaluations++
	c.R.States++
	c.R.Traces++
	if !first {
		c.R.Nontrivial++
	}
	key := fmt.Sprintf("rendering=%q", src)
	switch {
	case pan != "":
		c.Violate(eng.Violation{Kind: "panic", Key: key, Coords: coords, Observed: pan})
	case err != nil:
		c.Violate(eng.Violation{Kind: "rendering-rejected", Key: key, Coords: coords, Expected: pegref.Show(want), Observed: err.Error()})
	default:
		g := pegref.FromImpl(got)
		if o.notnot >= 0 {
			want = foldAt(e, o)
		}
		if !pegref.Equal(want, g) {
			c.Violate(eng.Violation{Kind: "round-trip-tree", Key: key, Coords: coords, Expected: pegref.Show(want), Observed: pegref.Show(g)})
		} else {
			c.Count("round-trip ok")
			if len(c.R.Samples) < 3 && !first {
				c.Sample(map[string]any{"rendering": src, "tree": pegref.Show(want)})
			}
		}
	}
}

// foldAt: expected tree when `not not` was inserted before node o.notnot: identical tree, except that a Not node at
// that position... `not not (not x)` = not x as well, so the tree is unchanged in every case.
func foldAt(e any, o rendOpts) any { return c16Expected(e, o) }

func c16Leaves(n int) []any {
	ls := []any{
		&Match{Sel: []string{"a"}, Op: OpEq, Lit: "1"},
		&Match{Sel: []string{"b", "c"}, Op: OpIn, Lit: "x"},
		&Match{Sel: []string{"d"}, Op: OpEmpty},
	}
	return ls[:n]
}

func c16Trees(leaves []any, depth int) []any {
	cur := append([]any{}, leaves...)
	for d := 2; d <= depth; d++ {
		var nxt []any
		nxt = append(nxt, leaves...)
		for _, x := range cur {
			if _, isNot := x.(*Not); !isNot {
				nxt = append(nxt, &Not{X: x})
			}
			for mode := 0; mode < 4; mode++ {
				nxt = append(nxt, &Quant{All: mode%2 == 1, Sel: []string{"l", "m"}, Mode: mode, Idx: "i", Val: "v", Body: x})
			}
			nxt = append(nxt, &Quant{All: true, Sel: []string{"l"}, Mode: BindDefault, Val: "v", Body: x})
		}
		for _, x := range cur {
			for _, y := range cur {
				nxt = append(nxt, &Bin{Or: false, L: x, R: y}, &Bin{Or: true, L: x, R: y})
			}
		}
		cur = nxt
	}
	return cur
}

// c16Chains: operator chains of 4..7 operands in every grouping shape that matters: right-nested (printed without
// parentheses), left-nested and balanced (printed with the parentheses the right-grouping rule requires), pure and mixed.
func c16Chains() []any {
	leaf := func(i int) any { return &Match{Sel: []string{string(rune('a' + i))}, Op: OpEq, Lit: strconv.Itoa(i)} }
	var out []any
	for n := 4; n <= 7; n++ {
		for _, or := range []bool{false, true} {
			// right-nested
			var r any = leaf(n - 1)
			for i := n - 2; i >= 0; i-- {
				r = &Bin{Or: or, L: leaf(i), R: r}
			}
			out = append(out, r)
			// left-nested
			var l any = leaf(0)
			for i := 1; i < n; i++ {
				l = &Bin{Or: or, L: l, R: leaf(i)}
			}
			out = append(out, l)
			// balanced
			var bal func(lo, hi int) any
			bal = func(lo, hi int) any {
				if hi-lo == 1 {
					return leaf(lo)
				}
				mid := (lo + hi) / 2
				return &Bin{Or: or, L: bal(lo, mid), R: bal(mid, hi)}
			}
			out = append(out, bal(0, n))
			// mixed: alternating operators right-nested, and a not in the middle
			var m any = leaf(n - 1)
			for i := n - 2; i >= 0; i-- {
				m = &Bin{Or: (i%2 == 0) == or, L: leaf(i), R: m}
			}
			out = append(out, m)
			out = append(out, &Bin{Or: or, L: leaf(0), R: &Bin{Or: or, L: &Not{X: leaf(1)}, R: &Bin{Or: or, L: leaf(2), R: &Bin{Or: !or, L: leaf(3), R: leaf(4)}}}})
		}
	}
	return out
}

func c16Strings(maxLen int) []string {
	// ... plus a byte that is not UTF-8 (spelled \xff) and the replacement character itself (a perfectly valid rune)
	alpha := []string{"a", "/", "~", "\"", "`", "\\", " ", "\n", "\r", "\x00", "é", "0", "-", ".", "\xff", "\ufffd", "\u200b"}
	out := []string{""}
	prev := []string{""}
	for n := 1; n <= maxLen; n++ {
		var cur []string
		for _, p := range prev {
			for _, a := range alpha {
				cur = append(cur, p+a)
			}
		}
		out = append(out, cur...)
		prev = cur
	}
	return out
}

func runC16(c *eng.Ctx) {
	unit := 0
	// ---- F1: leaf renderings ----
	if c.Want("f", 1) {
		paths := [][]string{{"a"}, {"a", "b"}, {"a", "0", "c"}, {"a", "b c"}, {"a/b", "é"}, {"a", "x.y", ""},
			// identifiers that start with (or are) a keyword must stay identifiers
			{"a", "x~1y"}, {"~0", "~1", "a~01"}, {"a", "b/c", "d~e"}, {"a", "k/"}, {"k~", "a"}, {"/", "~"}, {"~k", "/k", "~~"},
			{"notes"}, {"android", "order"}, {"inside", "isempty", "0"}, {"anyone", "allow"}, {"ask", "matchesx"}, {"containsx", "emptyx", "nota"},
			// all-digit parts are TEXT (map keys as well as indexes): zero-padded ones and ones beyond every integer width print and parse back unchanged
			{"m", "007"}, {"a", "00", "b"}, {"a", "010"}, {"m", "9223372036854775808"}, {"m", "18446744073709551616", "0"}, {"a", "0x1"}, {"a", "-1"}, {"a", "1e3"}, {"a", "1.0"}}
		litsF1 := []string{"1", "-1.5", "abc", "a b", "", "/a/b", "a.b", "true", "0x1f", "é\"", "`", "nothing", "ore", "andy", "a.0", "notes.b.1", "x/y", "v1.05", "a.007.b", "a.18446744073709551616", "007", "1.050", "-0"}
		for op := 0; op < 8; op++ {
			for _, path := range paths {
				for _, lit := range litsF1 {
					if (op == OpEmpty || op == OpNotEmpty) && lit != "1" {
						continue
					}
					unit++
					if !c.Mine(unit) || !c.Want("u", unit) {
						continue
					}
					e := &Match{Sel: path, Op: op, Lit: lit}
					first := true
					for spell := 0; spell < 4; spell++ {
						if _, _, ok := spellSel(path, spell); !ok {
							continue
						}
						for style := 0; style < 3; style++ {
							if _, ok := spellLit(lit, style); !ok && op != OpEmpty && op != OpNotEmpty {
								continue
							}
							for _, cont := range []bool{false, true} {
								if cont && op != OpIn && op != OpNotIn {
									continue
								}
								for wi, ws := range wsStyles {
									o := rendOpts{ws: ws, selSpell: spell, litStyle: style, contains: cont, parenNode: -1, notnot: -1}
									c16Check(c, e, o, map[string]int{"f": 1, "u": unit, "w": wi}, first)
									first = false
								}
							}
						}
					}
				}
			}
		}
	}
	// ---- F2: tree shapes ----
	if c.Want("f", 2) {
		nl := 2
		if c.Thorough() {
			nl = 3
		}
		trees := c16Trees(c16Leaves(3), 2)
		trees = append(trees, c16Trees(c16Leaves(nl), 3)...)
		trees = append(trees, c16Chains()...)
		// selectors that PRINT alike but are different paths, side by side in one expression (both orders, also in a quantifier): each keeps
		// its own path through parsing
		{
			ab, a_b := &Match{Sel: []string{"m", "a.b"}, Op: OpEq, Lit: "1"}, &Match{Sel: []string{"m", "a", "b"}, Op: OpEq, Lit: "2"}
			sl, s_l := &Match{Sel: []string{"m", "a/b"}, Op: OpIn, Lit: "x"}, &Match{Sel: []string{"m", "a", "b"}, Op: OpEmpty}
			trees = append(trees, &Bin{Or: false, L: ab, R: a_b}, &Bin{Or: true, L: a_b, R: ab}, &Bin{Or: false, L: sl, R: s_l}, &Bin{Or: true, L: s_l, R: sl},
				&Quant{All: false, Sel: []string{"m", "a.b"}, Mode: BindValue, Val: "x", Body: &Bin{Or: false, L: a_b, R: &Match{Sel: []string{"x", "a.b"}, Op: OpEq, Lit: "1"}}},
				&Not{X: &Bin{Or: true, L: &Match{Sel: []string{"m", "a", "b"}, Op: OpMatches, Lit: "x"}, R: &Match{Sel: []string{"m", "a.b"}, Op: OpMatches, Lit: "x"}}})
		}
		c.MaxOf("trees", int64(len(trees)))
		for ti, t := range trees {
			unit++
			if !c.Mine(unit) || !c.Want("u", unit) {
				continue
			}
			if c.Expired() {
				return
			}
			n := countNodes(t)
			first := true
			for wi, ws := range wsStyles {
				base := rendOpts{ws: ws, selSpell: 0, litStyle: StyleBare, parenNode: -1, notnot: -1}
				try := func(o rendOpts) {
					c16Check(c, t, o, map[string]int{"f": 2, "u": unit, "t": ti, "w": wi}, first)
					first = false
				}
				try(base)
				for node := 0; node < n; node++ {
					for k := 1; k <= 2; k++ {
						o := base
						o.parenNode, o.parenN = node, k
						try(o)
					}
					o := base
					o.notnot = node
					try(o)
				}
				o := base
				o.parenNode, o.parenN = -2, 1
				try(o)
				o = base
				o.litStyle, o.selSpell, o.contains = StyleQuoted, 3, true
				try(o)
			}
		}
	}
	// ---- F2b: look-alike selectors side by side, in every selector spelling ----
	if c.Want("f", 4) {
		ab, a_b := &Match{Sel: []string{"m", "a.b"}, Op: OpEq, Lit: "1"}, &Match{Sel: []string{"m", "a", "b"}, Op: OpEq, Lit: "2"}
		sl, s_l := &Match{Sel: []string{"m", "a/b"}, Op: OpIn, Lit: "x"}, &Match{Sel: []string{"m", "a", "b"}, Op: OpEmpty}
		special := []any{&Bin{Or: false, L: ab, R: a_b}, &Bin{Or: true, L: a_b, R: ab}, &Bin{Or: false, L: sl, R: s_l}, &Bin{Or: true, L: s_l, R: sl},
			&Quant{All: false, Sel: []string{"m", "a.b"}, Mode: BindValue, Val: "x", Body: &Bin{Or: false, L: a_b, R: &Match{Sel: []string{"x", "a.b"}, Op: OpEq, Lit: "1"}}},
			&Not{X: &Bin{Or: true, L: &Match{Sel: []string{"m", "a", "b"}, Op: OpMatches, Lit: "x"}, R: &Match{Sel: []string{"m", "a.b"}, Op: OpMatches, Lit: "x"}}},
			&Bin{Or: false, L: &Match{Sel: []string{"a", "b c"}, Op: OpEq, Lit: "1"}, R: &Bin{Or: true, L: &Match{Sel: []string{"a", "b c"}, Op: OpNe, Lit: "2"}, R: &Match{Sel: []string{"a", "b", "c"}, Op: OpEq, Lit: "3"}}}}
		for ti, t := range special {
			for spell := 0; spell < 4; spell++ {
				for wi, ws := range wsStyles {
					unit++
					if !c.Mine(unit) || !c.Want("u", unit) {
						continue
					}
					c16Check(c, t, rendOpts{ws: ws, selSpell: spell, litStyle: StyleQuoted, parenNode: -1, notnot: -1}, map[string]int{"f": 4, "u": unit, "t": ti, "w": wi}, true)
				}
			}
		}
	}
	// ---- F3: literal fidelity ----
	if c.Want("f", 3) {
		maxLen := 3
		if c.Thorough() {
			maxLen = 4
		}
		for si, s := range c16Strings(maxLen) {
			unit++
			if !c.Mine(unit) || !c.Want("u", unit) {
				continue
			}
			if si%64 == 0 && c.Expired() {
				return
			}
			var spellings []string
			if q, ok := spellLit(s, StyleQuoted); ok {
				spellings = append(spellings, q)
				// alternative escape spelling of every rune
				alt := "\""
				for i := 0; i < len(s); {
					r, size := utf8.DecodeRuneInString(s[i:])
					switch {
					case r == utf8.RuneError && size == 1:
						alt += fmt.Sprintf("\\x%02x", s[i]) // a byte that is not UTF-8 has only this spelling
					case r < 0x80:
						alt += fmt.Sprintf("\\x%02x", r)
					default:
						alt += runeEscape(r)
					}
					i += size
				}
				alt += "\""
				if !strings.Contains(alt[1:len(alt)-1], "\"") {
					spellings = append(spellings, alt)
				}
			}
			if q, ok := spellLit(s, StyleBacktick); ok {
				spellings = append(spellings, q)
			}
			// a back-quoted literal CONTAINING raw carriage returns is legal text; as in Go's raw strings the carriage returns are
			// not part of the string it denotes (hand-written multi-line literals with CR-LF line ends)
			type spelt struct{ q, want string }
			sp2 := make([]spelt, 0, len(spellings)+1)
			for _, q := range spellings {
				sp2 = append(sp2, spelt{q, s})
			}
			if strings.Contains(s, "\r") && !strings.Contains(s, "`") && utf8.ValidString(s) {
				sp2 = append(sp2, spelt{"`" + s + "`", strings.ReplaceAll(s, "\r", "")})
			}
			for qi, sq := range sp2 {
				q, s := sq.q, sq.want
				datum := map[string]interface{}{"X": s}
				for ti, tmpl := range []string{"X == %s", "%s in X", "X != %s", "X==%s", "any X as c { c == %s }"} {
					src := fmt.Sprintf(tmpl, q)
					co := map[string]int{"f": 3, "u": unit, "q": qi, "t": ti}
					key := fmt.Sprintf("rendering=%q", src)
					c.R.Evaluations++
					c.R.States++
					c.R.Traces++
					c.R.Nontrivial++
					ast, err, pan := parseSafe([]byte(src))
					if pan != "" || err != nil {
						c.Violate(eng.Violation{Kind: "literal-rejected", Key: key, Coords: co, Expected: fmt.Sprintf("literal %q", s), Observed: fmt.Sprint(err, pan)})
						continue
					}
					var m *grammar.MatchExpression
					switch x := ast.(type) {
					case *grammar.MatchExpression:
						m = x
					case *grammar.CollectionExpression:
						m, _ = x.Inner.(*grammar.MatchExpression)
					}
					if m == nil || m.Value == nil || m.Value.Raw != s {
						obs := "<no literal>"
						if m != nil && m.Value != nil {
							obs = fmt.Sprintf("%q", m.Value.Raw)
						}
						c.Violate(eng.Violation{Kind: "literal-text", Key: key, Coords: co, Expected: fmt.Sprintf("%q", s), Observed: obs})
						continue
					}
					if ti <= 3 {
						ev, cerr := bexpr.CreateEvaluator(src)
						if cerr != nil {
							c.Violate(eng.Violation{Kind: "literal-rejected", Key: key, Coords: co, Observed: cerr.Error()})
							continue
						}
						o := observe(ev, datum)
						want := T
						if ti == 2 {
							want = Fa
						}
						if o.panicked || o.class != want {
							c.Violate(eng.Violation{Kind: "literal-denotation", Key: key + fmt.Sprintf(" | X=%q", s), Coords: co, Expected: SetStr(want), Observed: o.String()})
							continue
						}
					}
					c.Count("literal ok")
				}
			}
		}
	}
}
