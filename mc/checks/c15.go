package checks

import (
	"fmt"
	"strings"
	"unicode"

	"github.com/hashicorp/go-bexpr/grammar"

	"verifmc/eng"
	"verifmc/model"
	"verifmc/pegref"
)

func init() {
	eng.Register(&eng.Check{
		ID:          "C15",
		Rule:        "E2 language explorer: (a) EVERY sequence of <=k tokens over a 32-token alphabet (identifiers a b x, 0 1 - ., \"s\" `s` \"/a\" and a lone quote, ( ) { } [ ] , _ == !=, and the 11 keywords) joined with every pattern of {no space, one space} per gap [quick: k<=3 all gap patterns + k=4 over a 20-token sub-alphabet with all-space/no-space joining; thorough: k=4 full alphabet with all 8 gap patterns + k=5 over the sub-alphabet]; (a') a rune sweep: every rune below U+3000, the half/full-width and mathematical digit blocks, and every 11th letter/number/space rune beyond [thorough: ALL 1 112 064 scalar values] in five lexical contexts (identifier start, identifier continuation, JSON-pointer segment, dotted part, blank between tokens); (b) every expression of a bounded derivation set (all operators, connectives, quantifier binding modes, selector spellings) and its COMPLETE 1-edit token neighbourhood (insert any token / delete / replace by any token / swap neighbours / duplicate, at every position); each string is parsed by the real grammar.Parse and by the independent reference PEG (hand transcription of the grammar with pigeon's observable semantics); oracle: accept/reject equal and, on accept, equal trees (operator, selector type and path, literal text or nil, binding mode and names, shape). Distinct by construction (k-sequences and edits are enumerated without repetition inside each family); non-trivial = string accepted by the reference (a tree was compared).",
		Assumptions: []string{"reference grammar = frozen transcription of grammar.peg (updated only together with a fix: commit that changes the grammar); C20 separately ties grammar.go to grammar.peg", "trusted: strconv.Unquote, unicode tables"},
		Run:         runC15,
	})
}

var c15Tokens = []string{"a", "b", "x", "0", "1", "-", ".", `"s"`, "`s`", `"/a"`, `"`, "(", ")", "{", "}", "[", "]", ",", "_", "==", "!=",
	"and", "or", "not", "in", "contains", "is", "empty", "matches", "any", "all", "as"}

// extended alphabet (used for k<=2 [thorough k<=3] and for the 1-edit neighbourhoods): case variants of the keywords,
// number shapes, identifier shapes, other blanks, odd quotes and foreign operators
var c15Ext = append(append([]string{}, c15Tokens...), "AND", "Or", "NOT", "In", "IS", "Empty", "ANY", "As", "Matches", "Contains", "ALL",
	"00", "01", "10", "a.01", "a.00", "1.", ".5", "1.5", "1e3", "+1", "-1", "a-b", "a_b", "a/b", "A", "é", "a1", "1a", "\t", "\n", "  ", `"\\"`, "``", `""`, "'s'", `"a b"`, "`a\nb`", `"/"`, `"/a/"`, `"/a~1b"`, `"//a"`,
	// JSON-pointer escapes at every position of a segment, adjacent escapes, the pair whose decoding order matters (~01), a lone tilde
	`"/a~01b"`, `"/a~1"`, `"/a~0"`, `"/~1a"`, `"/~0~1"`, `"/~1~0"`, `"/~01"`, `"/~10"`, `"/a~"`, `"/~"`, `"/a~2"`, `"/a~1/~0b"`,
	"\"a\nb\"", "`a\rb`", "\"a\rb\"", "\"a\tb\"", "`\r`", "\"\n\"",
	"&&", "||", "=", "!", "<", ";", "notx", "nota", "isempty", "anyx", "in1", "/a", "~", ":", "|", "[0]", "{}", "()", "\x00", "\xff")

// sub-alphabet for the deeper level: one representative per lexical role
var c15Sub = []string{"a", "x", "1", ".", `"s"`, `"/a"`, "(", ")", "{", "}", "[", "]", ",", "==", "and", "not", "in", "is", "empty", "any", "as"}

// compareParse parses in with both parsers and reports a violation on disagreement.
func compareParse(c *eng.Ctx, in string, coords map[string]int) (accepted bool) {
	rv, rok := pegref.Parse([]byte(in))
	iv, ierr, pan := parseSafe([]byte(in))
	c.R.Evaluations++
	c.R.States++
	c.R.Traces++
	iok := ierr == nil && pan == ""
	switch {
	case pan != "":
		c.Violate(eng.Violation{Kind: "panic", Key: "input=" + fmt.Sprintf("%q", in), Coords: coords, Observed: pan})
	case rok != iok:
		c.Violate(eng.Violation{Kind: "accept-reject", Key: "input=" + fmt.Sprintf("%q", in), Coords: coords, Expected: fmt.Sprintf("accepted=%v", rok), Observed: fmt.Sprintf("accepted=%v err=%v", iok, ierr)})
	case rok && !pegref.Equal(rv, pegref.FromImpl(iv)):
		c.Violate(eng.Violation{Kind: "tree", Key: "input=" + fmt.Sprintf("%q", in), Coords: coords, Expected: pegref.Show(rv), Observed: pegref.Show(pegref.FromImpl(iv))})
	}
	if rok {
		c.R.Nontrivial++
		c.Count("accepted")
		if len(c.R.Samples) < 3 {
			c.Sample(map[string]any{"input": in, "tree": pegref.Show(rv)})
		}
	} else {
		c.Count("rejected")
	}
	return rok
}

func parseSafe(in []byte) (v any, err error, panicked string) {
	defer func() {
		if r := recover(); r != nil {
			panicked = fmt.Sprint(r)
		}
	}()
	pollute()
	v, err = grammar.Parse("", in)
	return
}

// pollute: every judged parse is preceded by an unrelated one that ends abnormally - a budget running out in the middle of a rule, in the
// middle of a negative look-ahead, an input with a recorded action error, an invalid one. Whatever a parse leaves behind (a parser
// object that is reused, a budget, half-built stacks, an error list) must not reach the next parse, which is option-less.
var polluteN int

func pollute() {
	defer func() { recover() }()
	polluteN++
	switch polluteN % 5 {
	case 0:
		grammar.Parse("", []byte("a == 1 and (b == 2 or c in d)"), grammar.MaxExpressions(7))
	case 1:
		grammar.Parse("", []byte("foo == 1 and"), grammar.MaxExpressions(520))
	case 2:
		grammar.Parse("", []byte(`a == "\q" and b == "\z"`))
	case 3:
		grammar.Parse("", []byte("((a == 1"), grammar.MaxExpressions(300))
	case 4:
		grammar.Parse("", []byte("any a as x, x { x == `1` } )"))
	}
}

// tokenSeqs enumerates all k-sequences over toks x gap patterns; fam identifies the family for replay coordinates.
func tokenSeqs(c *eng.Ctx, fam int, toks []string, k int, allGaps bool) {
	if !c.Want("f", fam) {
		return
	}
	n := len(toks)
	total := 1
	for i := 0; i < k; i++ {
		total *= n
	}
	gaps := 1 << uint(k-1)
	var patterns []int
	if allGaps || k == 1 {
		for g := 0; g < gaps; g++ {
			patterns = append(patterns, g)
		}
	} else {
		patterns = []int{0, gaps - 1}
	}
	seq := make([]string, k)
	for idx := 0; idx < total; idx++ {
		if !c.Mine(idx) || !c.Want("i", idx) {
			continue
		}
		if idx%512 == 0 && c.Expired() {
			return
		}
		x := idx
		for i := 0; i < k; i++ {
			seq[i] = toks[x%n]
			x /= n
		}
		for _, g := range patterns {
			if !c.Want("g", g) {
				continue
			}
			var sb strings.Builder
			for i, t := range seq {
				if i > 0 && g&(1<<uint(i-1)) != 0 {
					sb.WriteByte(' ')
				}
				sb.WriteString(t)
			}
			compareParse(c, sb.String(), map[string]int{"f": fam, "i": idx, "g": g})
		}
	}
}

// ---- (b) derivations and their 1-edit neighbourhood ----

// tokenize splits a rendered expression into tokens at blanks, keeping punctuation separate.
func c15Tokenize(src string) []string {
	var out []string
	cur := ""
	flush := func() {
		if cur != "" {
			out = append(out, cur)
			cur = ""
		}
	}
	inQ := byte(0)
	for i := 0; i < len(src); i++ {
		ch := src[i]
		if inQ != 0 {
			cur += string(ch)
			if ch == inQ {
				inQ = 0
				flush()
			}
			continue
		}
		switch {
		case ch == '"' || ch == '`':
			flush()
			inQ = ch
			cur = string(ch)
		case ch == ' ':
			flush()
		case strings.ContainsRune("(){},", rune(ch)):
			flush()
			out = append(out, string(ch))
		default:
			cur += string(ch)
		}
	}
	flush()
	return out
}

func c15Derivations(thorough bool) []string {
	m := func(op int, lit string, sel ...string) *model.Match { return &model.Match{Sel: sel, Op: op, Lit: lit} }
	var es []any
	for op := 0; op < 8; op++ {
		es = append(es, m(op, "1", "a"), m(op, "s", "a", "b"))
	}
	es = append(es, &model.Match{Sel: []string{"a"}, Op: model.OpEq, Lit: "1", Style: model.StyleBare}, &model.Match{Sel: []string{"a", "0"}, Op: model.OpIn, Lit: "x", Style: model.StyleBare},
		&model.Match{Sel: []string{"a", "b c"}, Op: model.OpEq, Lit: "1.5", Style: model.StyleBare}, &model.Match{Sel: []string{"a", "b"}, Op: model.OpNe, Lit: "s", JP: true, Style: model.StyleQuoted})
	a, b, cc := m(model.OpEq, "1", "a"), m(model.OpEmpty, "", "b"), m(model.OpIn, "s", "x")
	es = append(es, &model.Not{X: a}, &model.Not{X: &model.Not{X: a}}, &model.Bin{Or: false, L: a, R: b}, &model.Bin{Or: true, L: a, R: b},
		&model.Bin{Or: true, L: a, R: &model.Bin{Or: false, L: b, R: cc}}, &model.Bin{Or: false, L: &model.Not{X: a}, R: &model.Bin{Or: true, L: b, R: cc}})
	for mode := 0; mode < 4; mode++ {
		es = append(es, &model.Quant{All: mode%2 == 0, Sel: []string{"a"}, Mode: mode, Idx: "i", Val: "x", Body: m(model.OpEq, "1", "x")})
	}
	es = append(es, &model.Quant{All: false, Sel: []string{"a", "b"}, Mode: model.BindBoth, Idx: "i", Val: "x", Body: &model.Quant{All: true, Sel: []string{"x"}, Mode: model.BindDefault, Val: "y", Body: &model.Bin{Or: true, L: m(model.OpEq, "1", "y"), R: m(model.OpEmpty, "", "i")}}})
	var out []string
	for _, e := range es {
		out = append(out, model.Render(e))
	}
	// hand-written layouts the renderer does not produce
	out = append(out, "a == 1", "a==1", "(a == 1)", " ( a == 1 ) ", "not a == 1", "a == 1 and b == 2 or x is empty", "a.b.0 == x", `a["b"].c != "s"`, "1 in a", "a contains 1", "a not contains 1",
		// selector-shaped values (the value text is the selector's dotted rendering) and identifiers that start with a keyword
		"a.01 == 1", "a.007.b == 1", "x == v1.01", "any a.00 as x { x.010 == 1 }", "a.18446744073709551616 == 1",
		"x == a.0", "x == a.b.c", `x == a["b c"].d`, "a.b in x", "a.0 not in x.y", `x != "/a/0"`, `"/a/b" in x`, "x contains a.b",
		"notes == 1", "android != nothing", "order is empty", "inside in isempty", "anyone matches allow", "any asset as ask { ask == notx }",
		"all matchesx as containsx, iss { iss is not empty and not nota == emptyx }", "x == not", "x == in", "not nothing == 1",
		"a == 1 or b == 1 or c == 1 or d == 1", "a == 1 and b == 1 and c == 1 and d == 1 and x == 1", "a == 1 or b == 1 and c == 1 or d == 1 and x == 1 or a is empty",
		"(a == 1 or b == 1) or (c == 1 or d == 1)", "not a == 1 and not b == 1 and not c == 1 and not d == 1",
		"a is not empty", "a not matches `s`", "any a as x { x == 1 }",
		// unary operators and value-less forms inside quantifier bodies that really iterate
		"any a as x { x is empty }", "all a as x { x is not empty }", "any a as k, v { v is empty or k is not empty }", "all a as x { not x is empty and x matches `a` }", "any a as x { any x as y { y is empty } }", "all a as i, _ { i != 0 }", "any a as _, x {x == `s`}", `"/a/b" == "/a"`, "a == -1.5", "not (a == 1 or b == 1)")
	return out
}

func runC15(c *eng.Ctx) {
	fam := 0
	next := func() int { fam++; return fam }
	// (a) token sequences
	tokenSeqs(c, next(), c15Ext, 1, true)
	tokenSeqs(c, next(), c15Ext, 2, true)
	tokenSeqs(c, next(), c15Tokens, 3, true)
	if c.Thorough() {
		tokenSeqs(c, next(), c15Ext, 3, true)
		tokenSeqs(c, next(), c15Tokens, 4, true)
		tokenSeqs(c, next(), c15Sub, 5, false)
	} else {
		next()
		tokenSeqs(c, next(), c15Sub, 4, false)
		next()
	}
	// (a') rune sweep: every rune of the sweep set in three lexical contexts (identifier start, identifier continuation,
	// JSON-pointer segment) - the engine's class matching and the classes themselves, behaviourally
	fr := next()
	if c.Want("f", fr) {
		idx := 0
		sweep := func(r rune) {
			for ctx, tm := range []string{"%c == 1", "a%c == 1", "\"/a%c\" == 1", "a.%c == 1", "a == 1%cand b == 1"} {
				idx++
				if !c.Mine(idx) || !c.Want("i", idx) {
					continue
				}
				compareParse(c, fmt.Sprintf(tm, r), map[string]int{"f": fr, "i": idx, "x": ctx})
			}
		}
		for r := rune(0); r <= 0x10FFFF; r++ {
			if r >= 0xD800 && r <= 0xDFFF {
				continue
			}
			if !c.Thorough() {
				interesting := r < 0x3000 || r == 0xFEFF || r == 0x10FFFF || (r >= 0xFF00 && r <= 0xFFEF) || (r >= 0x1D7C0 && r <= 0x1D7FF)
				if !interesting && !((unicode.IsLetter(r) || unicode.IsNumber(r) || unicode.IsSpace(r)) && r%11 == 0) {
					continue
				}
			}
			if r%4096 == 0 && c.Expired() {
				return
			}
			sweep(r)
		}
	}
	// (b) derivations + complete 1-edit neighbourhood
	f := next()
	if !c.Want("f", f) {
		return
	}
	ds := c15Derivations(c.Thorough())
	idx := 0
	try := func(toks []string) {
		idx++
		if !c.Mine(idx) || !c.Want("i", idx) {
			return
		}
		if c.Expired() {
			return
		}
		compareParse(c, strings.Join(toks, " "), map[string]int{"f": f, "i": idx})
	}
	for _, d := range ds {
		toks := c15Tokenize(d)
		idx++
		if c.Mine(idx) && c.Want("i", idx) {
			if !compareParse(c, d, map[string]int{"f": f, "i": idx}) {
				c.Violate(eng.Violation{Kind: "derivation-rejected-by-reference", Key: "input=" + d})
			}
		}
		try(toks)
		n := len(toks)
		edit := func(pre []string, mid []string, post []string) {
			t := append(append(append([]string{}, pre...), mid...), post...)
			try(t)
		}
		for i := 0; i <= n; i++ {
			for _, tk := range c15Ext {
				edit(toks[:i], []string{tk}, toks[i:]) // insert
			}
		}
		for i := 0; i < n; i++ {
			edit(toks[:i], nil, toks[i+1:]) // delete
			for _, tk := range c15Ext {
				edit(toks[:i], []string{tk}, toks[i+1:]) // replace
			}
			edit(toks[:i], []string{toks[i], toks[i]}, toks[i+1:]) // duplicate
			if i+1 < n {
				edit(toks[:i], []string{toks[i+1], toks[i]}, toks[i+2:]) // swap
			}
		}
	}
}
