package checks

import (
	"bytes"
	"fmt"
	"io"
	"strings"

	bexpr "github.com/hashicorp/go-bexpr"
	"github.com/hashicorp/go-bexpr/grammar"

	"verifmc/eng"
	"verifmc/model"
)

func init() {
	eng.Register(&eng.Check{
		ID:          "C10",
		Rule:        "E2 language explorer over bytes: (a) ALL byte strings of length <=4 (thorough <=5) over a 32-symbol alphabet with one representative per lexical class of the grammar (a n o t i s 0 1 - . \" ` / ~ _ ( ) { } [ ] , = ! space backslash NUL 0xFF 0xC3(truncated lead byte) and the 2-byte e-acute); (b) every sequence of <=2 tokens of the extended C15 token alphabet and <=3 of the base alphabet, all gap patterns; (c) every derivation of the C15 derivation set with one bad element (NUL, 0xFF, 0xC3, a lone quote of either kind, \"\\x\", \"\\400\", \"\\\", newline, [, (, {) injected at EVERY byte position; (d) extreme literals (numbers around and far beyond the int64 / uint64 / float64 ranges incl. the first that rounds to infinity, 5000-character literals of every kind, zero-padded and huge numeric selector parts, 2000-part paths, 500-fold not, 300-fold and/or; rejected and accepted inputs with 4..400 two-, three- and four-byte characters in front of the error position) in every value and selector position of 14 + 8 small templates; oracle on the real code: CreateEvaluator, CreateFilter, grammar.Parse never panic; evaluator xor error (nil filter only for \"\"); Parse error is nil exactly when CreateEvaluator accepts, then its value is a non-nil Expression; every accepted evaluator evaluates 25 probe data (incl. collections of unusual shape under every name: maps keyed by a named string type / interface{} / int, typed pointer lists with nil, arrays, pointers to collections, typed nil collections) (strings under every name twice in a row, non-empty lists and maps under every name) (maps / lists / structs with every scalar kind incl. unsigned, float, bool, nil) (err => false, no panic), executes as a filter and its tree dumps without panic. Distinct by construction within each family; non-trivial = input accepted (the evaluator was exercised) or rejected with a nil result as required (both directions are meaningful; counted: accepted ones).",
		Assumptions: []string{"bounded: strings over class representatives, not all 256 byte values", "coverage-guided fuzzing (a different family) is deliberately not used"},
		Run:         runC10,
	})
}

var c10Alphabet = []string{"a", "n", "o", "t", "i", "s", "0", "1", "-", ".", "\"", "`", "/", "~", "_", "(", ")", "{", "}", "[", "]", ",", "=", "!", " ", "\\", "\x00", "\xff", "\xc3", "é", "\n", "\ufffd"}

var c10Probes = []interface{}{
	nil, 1, "a", map[string]interface{}{"a": 1, "n": "s", "o": []interface{}{1, nil}, "t": map[string]interface{}{"a": "a"}, "i": nil, "s": "", "": 1},
	[]interface{}{map[string]interface{}{"a": 1}}, struct{ A, N int }{1, 2},
	map[string]interface{}{"a": uint(1), "n": uint8(0), "o": 1.5, "t": true, "i": int64(-1), "s": float32(0), "": uint64(7)},
	map[string]interface{}{"a": []uint{1, 0}, "n": []interface{}{uint16(1), "", 0.0}, "o": map[string]uint32{"a": 1}, "t": []bool{true}, "i": []byte("a"), "s": [2]float32{1, 0}},
	// a string under every name the derivations use, evaluated TWICE (whatever the first evaluation left behind - a compiled or
	// uncompilable pattern, a coerced or uncoercible literal - the second one must still return)
	c10Strings, c10Strings,
	// every name a non-empty list / a non-empty map (quantifier bodies are really entered)
	c10Lists, c10Maps, c10Lists,
}

// collections of unusual SHAPE under every name (what creation accepted must evaluate on any datum): maps keyed by a named string
// type, by interface{}, by int; typed pointer lists with nil; arrays; pointers to collections; typed nil collections.
var c10Odd = func() []interface{} {
	one := 1
	var nilMap map[string]int
	var nilList []string
	pm := &map[string]interface{}{"a": 1}
	shapes := []interface{}{
		map[model.MyString]interface{}{"a": 1, "b": "s"}, map[interface{}]interface{}{"a": 1, 2: "b"}, map[int]string{1: "a", 0: ""},
		[]*int{nil, &one}, [2]interface{}{"a", nil}, &pm, map[string]*int{"a": nil, "b": &one}, nilMap, nilList,
		map[model.MyString][]model.MyString{"a": {"a", ""}}, []map[model.MyString]int{{"a": 1}}, &[]interface{}{map[model.MyString]interface{}{"b": "s"}},
	}
	var out []interface{}
	for _, sh := range shapes {
		m := map[string]interface{}{}
		for _, k := range []string{"a", "b", "x", "y", "n", "o", "t", "i", "s", "k", "v", "l", "m", "foo", "bar", ""} {
			m[k] = sh
		}
		out = append(out, m)
	}
	return out
}()

func init() { c10Probes = append(c10Probes, c10Odd...) }

var c10Lists = func() map[string]interface{} {
	m := map[string]interface{}{}
	for _, k := range []string{"a", "b", "x", "y", "n", "o", "t", "i", "s", "k", "v", "l", "m", "foo", "bar", ""} {
		m[k] = []interface{}{"a", "", []interface{}{""}, map[string]interface{}{"b": "s", "0": 1}}
	}
	return m
}()

var c10Maps = func() map[string]interface{} {
	m := map[string]interface{}{}
	for _, k := range []string{"a", "b", "x", "y", "n", "o", "t", "i", "s", "k", "v", "l", "m", "foo", "bar", ""} {
		m[k] = map[string]interface{}{"b": "s", "a": "", "0": []interface{}{"x"}, "b c": 1.5}
	}
	return m
}()

var c10Strings = map[string]interface{}{"a": "a", "b": "b", "x": "x", "y": "y", "n": "n", "o": "o", "t": "t", "i": "i", "s": "s", "k": "k", "v": "v", "l": []string{"a", "("}, "m": map[string]string{"a": "("},
	"foo": "foo", "bar": "bar", "": "e"}

type c10Out struct {
	panicked string
	ok       bool
}

func c10Probe(c *eng.Ctx, in []byte, coords map[string]int) {
	src := string(in)
	c.R.States++
	c.R.Traces++
	key := fmt.Sprintf("input=%q", src)
	bad := func(kind, exp, obs string) {
		c.Violate(eng.Violation{Kind: kind, Key: key, Coords: coords, Expected: exp, Observed: obs})
	}
	var ev *bexpr.Evaluator
	var everr error
	if p := catch(func() { ev, everr = bexpr.CreateEvaluator(src) }); p != "" {
		bad("panic-CreateEvaluator", "no panic", p)
		return
	}
	var flt *bexpr.Filter
	var ferr error
	if p := catch(func() { flt, ferr = bexpr.CreateFilter(src) }); p != "" {
		bad("panic-CreateFilter", "no panic", p)
		return
	}
	var pv interface{}
	var perr error
	if p := catch(func() { pv, perr = grammar.Parse("", in) }); p != "" {
		bad("panic-Parse", "no panic", p)
		return
	}
	c.R.Evaluations += 3
	if (ev != nil) == (everr != nil) {
		bad("evaluator-xor-error", "exactly one of evaluator / error", fmt.Sprintf("evaluator-nil=%v err=%v", ev == nil, everr))
	}
	if src == "" {
		if flt != nil || ferr != nil {
			bad("empty-filter", "(nil, nil)", fmt.Sprintf("filter-nil=%v err=%v", flt == nil, ferr))
		}
	} else if (flt != nil) == (ferr != nil) {
		bad("filter-xor-error", "exactly one of filter / error", fmt.Sprintf("filter-nil=%v err=%v", flt == nil, ferr))
	}
	if (perr == nil) != (everr == nil) {
		bad("parse-vs-create", fmt.Sprintf("Parse err==nil is %v", everr == nil), fmt.Sprintf("Parse err=%v, CreateEvaluator err=%v", perr, everr))
	}
	if src != "" && (ferr == nil) != (everr == nil) {
		bad("filter-vs-evaluator", fmt.Sprintf("CreateFilter accepts=%v", everr == nil), fmt.Sprintf("CreateFilter err=%v", ferr))
	}
	if perr == nil {
		expr, ok := pv.(grammar.Expression)
		if !ok || expr == nil || isNilValue(pv) {
			bad("parse-value", "non-nil grammar.Expression", fmt.Sprintf("%T %v", pv, pv))
		} else {
			if p := catch(func() {
				var b1, b2 bytes.Buffer
				expr.ExpressionDump(&b1, "  ", 0)
				expr.ExpressionDump(&b2, "  ", 0)
				expr.ExpressionDump(io.Discard, "", 3)
				if b1.String() != b2.String() {
					panic("two dumps differ")
				}
			}); p != "" {
				bad("panic-ExpressionDump", "no panic", p)
			}
		}
	}
	if ev == nil || everr != nil {
		c.Count("rejected")
		return
	}
	c.Count("accepted")
	c.R.Nontrivial++
	if ev.Expression() != src {
		bad("expression-string", src, ev.Expression())
	}
	for _, d := range c10Probes {
		o := observe(ev, d)
		c.R.Evaluations++
		if o.panicked {
			bad("panic-Evaluate", "no panic", fmt.Sprintf("datum=%#v: %s", d, o.msg))
		} else if o.errTrue {
			bad("err-with-true", "(false, err)", fmt.Sprintf("datum=%#v", d))
		}
	}
	if flt != nil {
		if p := catch(func() {
			eng.CallBegin(flt, c10Probes[4])
			defer eng.CallEnd()
			flt.Execute(c10Probes[4])
			flt.Execute(c10Probes[3])
			flt.Execute(nil)
		}); p != "" {
			bad("panic-Execute", "no panic", p)
		}
	}
	if len(c.R.Samples) < 3 {
		c.Sample(map[string]any{"accepted_input": src})
	}
}

func catch(f func()) (p string) {
	defer func() {
		if r := recover(); r != nil {
			p = fmt.Sprint(r)
			if p == "" {
				p = "panic"
			}
		}
	}()
	f()
	return ""
}

func isNilValue(v interface{}) bool {
	switch x := v.(type) {
	case *grammar.MatchExpression:
		return x == nil
	case *grammar.UnaryExpression:
		return x == nil
	case *grammar.BinaryExpression:
		return x == nil
	case *grammar.CollectionExpression:
		return x == nil
	}
	return v == nil
}

func runC10(c *eng.Ctx) {
	maxLen := 4
	if c.Thorough() {
		maxLen = 5
	}
	n := len(c10Alphabet)
	// (a) all strings of length <= maxLen
	if c.Want("f", 1) {
		total := 1
		idx := 0
		for l := 0; l <= maxLen; l++ {
			for k := 0; k < total; k++ {
				idx++
				if !c.MineMixed(idx) || !c.Want("i", idx) {
					continue
				}
				if idx%256 == 0 && c.Expired() {
					return
				}
				var b []byte
				x := k
				for i := 0; i < l; i++ {
					b = append(b, c10Alphabet[x%n]...)
					x /= n
				}
				c10Probe(c, b, map[string]int{"f": 1, "i": idx})
			}
			total *= n
		}
	}
	// (b) token sequences
	if c.Want("f", 2) {
		tokenInputs(c, 2, "i", func(b []byte, co map[string]int) { c10Probe(c, b, co) })
	}
	// (c) derivations with one bad element injected at every byte position
	if c.Want("f", 3) {
		bads := []string{"\x00", "\xff", "\xc3", "\"", "`", "\"\\x\"", "\"\\400\"", "\\", "\n", "[", "(", "{", "}", ")", "]",
			// blanks that are NOT whitespace of the grammar ([ \t\r\n] only)
			"\v", "\f", "\u0085", "\u00a0", "\u2028", "\u3000", "\ufeff", "\u200b",
			// perfectly valid runes that careless validation confuses with errors or strips
			"\ufffd", "\u00ad", "\u200d", "\U000e0067"}
		idx := 0
		for _, d := range c15Derivations(c.Thorough()) {
			for pos := 0; pos <= len(d); pos++ {
				for _, b := range bads {
					idx++
					if !c.Mine(idx) || !c.Want("i", idx) {
						continue
					}
					if c.Expired() {
						return
					}
					in := d[:pos] + b + d[pos:]
					c10Probe(c, []byte(in), map[string]int{"f": 3, "i": idx})
				}
			}
		}
	}
	// (d) extreme literals and selector parts in every value / selector position of small templates
	if c.Want("f", 4) {
		idx := 0
		for _, in := range c10Extremes() {
			idx++
			if !c.Mine(idx) || !c.Want("i", idx) {
				continue
			}
			c10Probe(c, []byte(in), map[string]int{"f": 4, "i": idx})
		}
	}
}

// c10Extremes: number literals beyond every numeric range (int64, uint64, float64 incl. the first one that rounds to infinity),
// very long literals of every kind, numeric selector parts around 2^63 / 2^64 / far beyond, zero-padded ones, very long paths.
func c10Extremes() []string {
	rep := strings.Repeat
	maxF := "17976931348623157" + rep("0", 292) // MaxFloat64 rounded up a little: still finite
	nums := []string{"9223372036854775807", "9223372036854775808", "-9223372036854775808", "-9223372036854775809", "18446744073709551615", "18446744073709551616",
		maxF, maxF + "0", "-" + maxF + "0", maxF + "0.5", "1" + rep("0", 308), "1" + rep("0", 309), "-1" + rep("0", 400), rep("9", 400), rep("9", 5000),
		"0." + rep("0", 400) + "1", "-0." + rep("0", 400), rep("9", 400) + "." + rep("9", 400), "-0", "0.0", "00", "-00.00"}
	vals := append([]string{}, nums...)
	for _, n := range nums {
		vals = append(vals, "\""+n+"\"", "`"+n+"`")
	}
	vals = append(vals, "\""+rep("a", 5000)+"\"", rep("a", 5000), "`"+rep("(", 5000)+"`", "\""+rep("\\\\", 2000)+"\"", "\""+rep("\\u00e9", 1000)+"\"", "\"(?:"+rep("a?", 200)+")\"")
	var out []string
	for _, v := range vals {
		for _, t := range []string{"a == %s", "a != %s", "%s in a", "%s not in a", "a contains %s", "a matches %s", "not a == %s", "a == %s and a != %s", "any a as x { x == %s }",
			"all a as k, v { v != %s or k == %s }", "a.b == %s", "\"/a\" == %s", "l contains %s", "m contains %s"} {
			out = append(out, strings.ReplaceAll(t, "%s", v))
		}
	}
	parts := []string{"0", "00", "007", "08", "9223372036854775807", "9223372036854775808", "18446744073709551615", "18446744073709551616", rep("9", 400), rep("0", 400), rep("a", 5000), "-1", "1e3", "0x1"}
	for _, p := range parts {
		for _, sel := range []string{"a." + p, "a[\"" + p + "\"]", "a[`" + p + "`]", "\"/a/" + p + "\"", "a." + p + ".b", "a.b." + p, p + ".a", "l." + p, "m." + p, "a." + p + "." + p} {
			for _, t := range []string{"%s == 1", "%s is empty", "%s is not empty", "1 in %s", "%s matches \"a\"", "any %s as x { x == 1 }", "all %s as k, v { k == v }", "a == %s"} {
				out = append(out, strings.ReplaceAll(t, "%s", sel))
			}
		}
	}
	// REJECTED inputs whose error position lies behind many multi-byte characters (byte offsets are not rune indexes), and
	// accepted ones of the same shape
	for _, mb := range []string{"\u00e9", "\u6771", "\U0001d518"} {
		for _, n := range []int{4, 6, 11, 12, 40, 400} {
			body := rep(mb, n)
			out = append(out, "a == \""+body, "a == `"+body, "\"/"+body+"/"+body+"\" == ", "\"/"+body+"\" == 1 and", "a[\""+body+"\"", "a[\""+body+"\"] == ", "a == \""+body+"\" )",
				"a == \""+body+"\" and (", "a == \""+body+"\"", "a[\""+body+"\"] is empty", "\"/a/"+body+"\" == \""+body+"\"", "any a as x { x == \""+body+"\"", "a == \""+body+"\\q\"", "a == \""+body+"\xff\"")
		}
	}
	// accepted by the unlimited parser at a cost of 10^5 .. 10^7 steps: creation (which sets no budget of its own) accepts them too
	for _, depth := range []int{5, 6, 7} {
		out = append(out, rep("(", depth)+"a == 1"+rep(")", depth), rep("(", depth)+"a == 1"+rep(")", depth-1))
	}
	out = append(out, "a"+rep(".a", 2000)+" == 1", "\""+rep("/a", 2000)+"\" == 1", "a"+rep("[\"a\"]", 1000)+" is empty", rep("not ", 500)+"a == 1", "a == 1"+rep(" and a == 1", 300), "a == 1"+rep(" or a != 1", 300))
	return out
}

// tokenInputs enumerates every sequence of <=2 tokens of the extended C15 token alphabet and <=3 of the base alphabet (plus four
// literal tokens), with every pattern of blanks between them; shared by the checks whose quantifier is "every accepted input".
func tokenInputs(c *eng.Ctx, fam int, idxKey string, fn func(in []byte, co map[string]int)) {
	idx := 0
	seqs := func(toks []string, k int) {
		total := 1
		for i := 0; i < k; i++ {
			total *= len(toks)
		}
		seq := make([]string, k)
		for t := 0; t < total; t++ {
			x := t
			for i := 0; i < k; i++ {
				seq[i] = toks[x%len(toks)]
				x /= len(toks)
			}
			for g := 0; g < 1<<uint(k-1); g++ {
				idx++
				if !c.Mine(idx) || !c.Want(idxKey, idx) {
					continue
				}
				if idx%256 == 0 && c.Expired() {
					return
				}
				var b []byte
				for i, tk := range seq {
					if i > 0 && g&(1<<uint(i-1)) != 0 {
						b = append(b, ' ')
					}
					b = append(b, tk...)
				}
				fn(b, map[string]int{"f": fam, idxKey: idx})
			}
		}
	}
	seqs(c15Ext, 1)
	seqs(c15Ext, 2)
	seqs(append(append([]string{}, c15Tokens...), "\"\"", "``", "-1", "1.5"), 3)
}
