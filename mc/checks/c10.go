package checks

import (
	"bytes"
	"fmt"
	"io"

	bexpr "github.com/hashicorp/go-bexpr"
	"github.com/hashicorp/go-bexpr/grammar"

	"verifmc/eng"
)

func init() {
	eng.Register(&eng.Check{
		ID:          "C10",
		Rule:        "E2 language explorer over bytes: (a) ALL byte strings of length <=4 (thorough <=5) over a 32-symbol alphabet with one representative per lexical class of the grammar (a n o t i s 0 1 - . \" ` / ~ _ ( ) { } [ ] , = ! space backslash NUL 0xFF 0xC3(truncated lead byte) and the 2-byte e-acute); (b) every sequence of <=2 tokens of the extended C15 token alphabet and <=3 of the base alphabet, all gap patterns; (c) every derivation of the C15 derivation set with one bad element (NUL, 0xFF, 0xC3, a lone quote of either kind, \"\\x\", \"\\400\", \"\\\", newline, [, (, {) injected at EVERY byte position; oracle on the real code: CreateEvaluator, CreateFilter, grammar.Parse never panic; evaluator xor error (nil filter only for \"\"); Parse error is nil exactly when CreateEvaluator accepts, then its value is a non-nil Expression; every accepted evaluator evaluates 13 probe data (strings under every name twice in a row, non-empty lists and maps under every name) (maps / lists / structs with every scalar kind incl. unsigned, float, bool, nil) (err => false, no panic), executes as a filter and its tree dumps without panic. Distinct by construction within each family; non-trivial = input accepted (the evaluator was exercised) or rejected with a nil result as required (both directions are meaningful; counted: accepted ones).",
		Assumptions: []string{"bounded: strings over class representatives, not all 256 byte values", "coverage-guided fuzzing (a different family) is deliberately not used"},
		Run:         runC10,
	})
}

var c10Alphabet = []string{"a", "n", "o", "t", "i", "s", "0", "1", "-", ".", "\"", "`", "/", "~", "_", "(", ")", "{", "}", "[", "]", ",", "=", "!", " ", "\\", "\x00", "\xff", "\xc3", "é", "\n", "\ufffd"}

var c10Probes = []interface{}{
	nil, 1, "a", map[string]interface{}{"a": 1, "n": "s", "o": []interface{}{1, nil}, "t": map[string]interface{}{"a": "a"}, "i": nil, "s": "", "": 1},
	[]interface{}{map[string]interface{}{"a": 1}}, struct{ A, N int }{1, 2},
	map[string]interface{}{"a": uint(1), "n": uint8(0), "o": 1.5, "t": true, "i": int64(-1), "s": float32(0), "": uint64(7)},
	map[string]interface{}{"a": []uint{1, 0}, "n": []interface{}{uint16(1), "", 0.0}, "o": map[string]uint32{"a": 1}, "t": []bool{true}, "i": []byte("a"), "s": [2]float32{1, 0}},
	// a string under every name the derivations use, evaluated TWICE (whatever the first evaluation left behind - a compiled or
	// uncompilable pattern, a coerced or uncoercible literal - the second one must still return)
	c10Strings, c10Strings,
	// every name a non-empty list / a non-empty map (quantifier bodies are really entered)
	c10Lists, c10Maps, c10Lists,
}

var c10Lists = func() map[string]interface{} {
	m := map[string]interface{}{}
	for _, k := range []string{"a", "b", "x", "y", "n", "o", "t", "i", "s", "k", "v", "l", "m", "foo", "bar", ""} {
		m[k] = []interface{}{"a", "", []interface{}{""}, map[string]interface{}{"b": "s", "0": 1}}
	}
	return m
}()

var c10Maps = func() map[string]interface{} {
	m := map[string]interface{}{}
	for _, k := range []string{"a", "b", "x", "y", "n", "o", "t", "i", "s", "k", "v", "l", "m", "foo", "bar", ""} {
		m[k] = map[string]interface{}{"b": "s", "a": "", "0": []interface{}{"x"}, "b c": 1.5}
	}
	return m
}()

var c10Strings = map[string]interface{}{"a": "a", "b": "b", "x": "x", "y": "y", "n": "n", "o": "o", "t": "t", "i": "i", "s": "s", "k": "k", "v": "v", "l": []string{"a", "("}, "m": map[string]string{"a": "("},
	"foo": "foo", "bar": "bar", "": "e"}

type c10Out struct {
	panicked string
	ok       bool
}

func c10Probe(c *eng.Ctx, in []byte, coords map[string]int) {
	src := string(in)
	c.R.States++
	c.R.Traces++
	key := fmt.Sprintf("input=%q", src)
	bad := func(kind, exp, obs string) {
		c.Violate(eng.Violation{Kind: kind, Key: key, Coords: coords, Expected: exp, Observed: obs})
	}
	var ev *bexpr.Evaluator
	var everr error
	if p := catch(func() { ev, everr = bexpr.CreateEvaluator(src) }); p != "" {
		bad("panic-CreateEvaluator", "no panic", p)
		return
	}
	var flt *bexpr.Filter
	var ferr error
	if p := catch(func() { flt, ferr = bexpr.CreateFilter(src) }); p != "" {
		bad("panic-CreateFilter", "no panic", p)
		return
	}
	var pv interface{}
	var perr error
	if p := catch(func() { pv, perr = grammar.Parse("", in) }); p != "" {
		bad("panic-Parse", "no panic", p)
		return
	}
	c.R.Evaluations += 3
	if (ev != nil) == (everr != nil) {
		bad("evaluator-xor-error", "exactly one of evaluator / error", fmt.Sprintf("evaluator-nil=%v err=%v", ev == nil, everr))
	}
	if src == "" {
		if flt != nil || ferr != nil {
			bad("empty-filter", "(nil, nil)", fmt.Sprintf("filter-nil=%v err=%v", flt == nil, ferr))
		}
	} else if (flt != nil) == (ferr != nil) {
		bad("filter-xor-error", "exactly one of filter / error", fmt.Sprintf("filter-nil=%v err=%v", flt == nil, ferr))
	}
	if (perr == nil) != (everr == nil) {
		bad("parse-vs-create", fmt.Sprintf("Parse err==nil is %v", everr == nil), fmt.Sprintf("Parse err=%v, CreateEvaluator err=%v", perr, everr))
	}
	if src != "" && (ferr == nil) != (everr == nil) {
		bad("filter-vs-evaluator", fmt.Sprintf("CreateFilter accepts=%v", everr == nil), fmt.Sprintf("CreateFilter err=%v", ferr))
	}
	if perr == nil {
		expr, ok := pv.(grammar.Expression)
		if !ok || expr == nil || isNilValue(pv) {
			bad("parse-value", "non-nil grammar.Expression", fmt.Sprintf("%T %v", pv, pv))
		} else {
			if p := catch(func() {
				var b1, b2 bytes.Buffer
				expr.ExpressionDump(&b1, "  ", 0)
				expr.ExpressionDump(&b2, "  ", 0)
				expr.ExpressionDump(io.Discard, "", 3)
				if b1.String() != b2.String() {
					panic("two dumps differ")
				}
			}); p != "" {
				bad("panic-ExpressionDump", "no panic", p)
			}
		}
	}
	if ev == nil || everr != nil {
		c.Count("rejected")
		return
	}
	c.Count("accepted")
	c.R.Nontrivial++
	if ev.Expression() != src {
		bad("expression-string", src, ev.Expression())
	}
	for _, d := range c10Probes {
		o := observe(ev, d)
		c.R.Evaluations++
		if o.panicked {
			bad("panic-Evaluate", "no panic", fmt.Sprintf("datum=%#v: %s", d, o.msg))
		} else if o.errTrue {
			bad("err-with-true", "(false, err)", fmt.Sprintf("datum=%#v", d))
		}
	}
	if flt != nil {
		if p := catch(func() {
			eng.CallBegin(flt, c10Probes[4])
			defer eng.CallEnd()
			flt.Execute(c10Probes[4])
			flt.Execute(c10Probes[3])
			flt.Execute(nil)
		}); p != "" {
			bad("panic-Execute", "no panic", p)
		}
	}
	if len(c.R.Samples) < 3 {
		c.Sample(map[string]any{"accepted_input": src})
	}
}

func catch(f func()) (p string) {
	defer func() {
		if r := recover(); r != nil {
			p = fmt.Sprint(r)
			if p == "" {
				p = "panic"
			}
		}
	}()
	f()
	return ""
}

func isNilValue(v interface{}) bool {
	switch x := v.(type) {
	case *grammar.MatchExpression:
		return x == nil
	case *grammar.UnaryExpression:
		return x == nil
	case *grammar.BinaryExpression:
		return x == nil
	case *grammar.CollectionExpression:
		return x == nil
	}
	return v == nil
}

func runC10(c *eng.Ctx) {
	maxLen := 4
	if c.Thorough() {
		maxLen = 5
	}
	n := len(c10Alphabet)
	// (a) all strings of length <= maxLen
	if c.Want("f", 1) {
		total := 1
		idx := 0
		for l := 0; l <= maxLen; l++ {
			for k := 0; k < total; k++ {
				idx++
				if !c.Mine(idx) || !c.Want("i", idx) {
					continue
				}
				if idx%256 == 0 && c.Expired() {
					return
				}
				var b []byte
				x := k
				for i := 0; i < l; i++ {
					b = append(b, c10Alphabet[x%n]...)
					x /= n
				}
				c10Probe(c, b, map[string]int{"f": 1, "i": idx})
			}
			total *= n
		}
	}
	// (b) token sequences
	if c.Want("f", 2) {
		tokenInputs(c, 2, "i", func(b []byte, co map[string]int) { c10Probe(c, b, co) })
	}
	// (c) derivations with one bad element injected at every byte position
	if c.Want("f", 3) {
		bads := []string{"\x00", "\xff", "\xc3", "\"", "`", "\"\\x\"", "\"\\400\"", "\\", "\n", "[", "(", "{", "}", ")", "]",
			// blanks that are NOT whitespace of the grammar ([ \t\r\n] only)
			"\v", "\f", "\u0085", "\u00a0", "\u2028", "\u3000", "\ufeff", "\u200b",
			// perfectly valid runes that careless validation confuses with errors or strips
			"\ufffd", "\u00ad", "\u200d", "\U000e0067"}
		idx := 0
		for _, d := range c15Derivations(c.Thorough()) {
			for pos := 0; pos <= len(d); pos++ {
				for _, b := range bads {
					idx++
					if !c.Mine(idx) || !c.Want("i", idx) {
						continue
					}
					if c.Expired() {
						return
					}
					in := d[:pos] + b + d[pos:]
					c10Probe(c, []byte(in), map[string]int{"f": 3, "i": idx})
				}
			}
		}
	}
}

// tokenInputs enumerates every sequence of <=2 tokens of the extended C15 token alphabet and <=3 of the base alphabet (plus four
// literal tokens), with every pattern of blanks between them; shared by the checks whose quantifier is "every accepted input".
func tokenInputs(c *eng.Ctx, fam int, idxKey string, fn func(in []byte, co map[string]int)) {
	idx := 0
	seqs := func(toks []string, k int) {
		total := 1
		for i := 0; i < k; i++ {
			total *= len(toks)
		}
		seq := make([]string, k)
		for t := 0; t < total; t++ {
			x := t
			for i := 0; i < k; i++ {
				seq[i] = toks[x%len(toks)]
				x /= len(toks)
			}
			for g := 0; g < 1<<uint(k-1); g++ {
				idx++
				if !c.Mine(idx) || !c.Want(idxKey, idx) {
					continue
				}
				if idx%256 == 0 && c.Expired() {
					return
				}
				var b []byte
				for i, tk := range seq {
					if i > 0 && g&(1<<uint(i-1)) != 0 {
						b = append(b, ' ')
					}
					b = append(b, tk...)
				}
				fn(b, map[string]int{"f": fam, idxKey: idx})
			}
		}
	}
	seqs(c15Ext, 1)
	seqs(c15Ext, 2)
	seqs(append(append([]string{}, c15Tokens...), "\"\"", "``", "-1", "1.5"), 3)
}
