package checks

import (
	"bytes"
	"fmt"
	"strconv"
	"strings"

	bexpr "github.com/hashicorp/go-bexpr"
	"github.com/hashicorp/go-bexpr/grammar"

	"verifmc/eng"
	. "verifmc/model"
	"verifmc/pegref"
)

func init() {
	eng.Register(&eng.Check{
		ID:          "C19",
		Rule:        "E2: every parser-produced tree of the C16 spaces (all trees of depth<=2 over 3 leaves, depth 3 over 2 [thorough 3] leaves, every operator x selector spelling x literal incl. ones needing %q escapes) x indent in {\"\", \" \", TAB, 3 blanks, \"%s\", \"%\"} x start level in {0,1,3}: ExpressionDump output is byte-equal to an independent reference renderer written from the documented format (pre-order, one block per node, one indent level per tree level, operator names, ALL/ANY + binding, dotted vs slash-joined selector, quoted literal only for equality/membership), no panic, two renders identical; plus Selector.String on constructed selectors of each type with 0..3 parts. Distinct by construction; non-trivial = tree with >=2 nodes or a literal needing escapes.",
		Assumptions: []string{"reference renderer reads the tree's fields only (never calls the String/Dump methods under test); %q is Go's strconv.Quote"},
		Run:          runC19,
		NeedsOverlay: "add",
	})
}

var opNames = []string{"Equal", "Not Equal", "In", "Not In", "Is Empty", "Is Not Empty", "Matches", "Not Matches"}

func refSelString(s pegref.RSel) string {
	if len(s.Path) == 0 {
		return ""
	}
	switch s.Type {
	case 1:
		return strings.Join(s.Path, ".")
	case 2:
		return strings.Join(s.Path, "/")
	}
	return ""
}

func refDump(b *bytes.Buffer, e any, indent string, level int) {
	ind := strings.Repeat(indent, level)
	ind1 := strings.Repeat(indent, level+1)
	switch n := e.(type) {
	case *pegref.RNot:
		b.WriteString(ind + "Not {\n")
		refDump(b, n.X, indent, level+1)
		b.WriteString(ind + "}\n")
	case *pegref.RBin:
		name := "And"
		if n.Op == 1 {
			name = "Or"
		}
		b.WriteString(ind + name + " {\n")
		refDump(b, n.L, indent, level+1)
		refDump(b, n.R, indent, level+1)
		b.WriteString(ind + "}\n")
	case *pegref.RMatch:
		b.WriteString(ind + opNames[n.Op] + " {\n")
		b.WriteString(ind1 + "Selector: " + refSelString(n.Sel) + "\n")
		if n.Op <= 3 {
			b.WriteString(ind1 + "Value: " + strconv.Quote(*n.Val) + "\n")
		}
		b.WriteString(ind + "}\n")
	case *pegref.RColl:
		var bind string
		switch n.Bind.Mode {
		case "Default":
			bind = "Default (" + n.Bind.Default + ")"
		case "Index":
			bind = "Index (" + n.Bind.Index + ")"
		case "Value":
			bind = "Value (" + n.Bind.Value + ")"
		case "Index & Value":
			bind = "Index & Value (" + n.Bind.Index + ", " + n.Bind.Value + ")"
		}
		b.WriteString(ind + n.Op + " " + bind + " on " + refSelString(n.Sel) + " {\n")
		refDump(b, n.Inner, indent, level+1)
		b.WriteString(ind + "}\n")
	}
}

func dumpSafe(e grammar.Expression, indent string, level int) (s string, pan string) {
	defer func() {
		if r := recover(); r != nil {
			pan = fmt.Sprint(r)
		}
	}()
	var b bytes.Buffer
	e.ExpressionDump(&b, indent, level)
	return b.String(), ""
}

// c19ASTOf is set in the instrumented build (c19_verif.go); nil otherwise
var c19ASTOf func(*bexpr.Evaluator) grammar.Expression

// c19AfterUse: the tree of an Evaluator renders the same before and after the evaluator has been used (evaluated on lists, maps,
// scalars, absent keys) - and the same as the tree of a fresh parse of the same text
func c19AfterUse(c *eng.Ctx, src string, unit int) {
	if c19ASTOf == nil {
		return
	}
	ev, err := bexpr.CreateEvaluator(src)
	if err != nil || ev == nil {
		return
	}
	tree := c19ASTOf(ev)
	if tree == nil {
		return
	}
	before, p1 := dumpSafe(tree, "  ", 0)
	for _, d := range c10Probes {
		observe(ev, d)
		c.R.Evaluations++
	}
	after, p2 := dumpSafe(c19ASTOf(ev), "  ", 0)
	c.R.States++
	c.R.Traces++
	if p1 != "" || p2 != "" || before != after {
		c.Violate(eng.Violation{Kind: "dump-changes-after-evaluation", Key: fmt.Sprintf("tree-of=%q", src), Coords: map[string]int{"u": unit}, Expected: before, Observed: after + p1 + p2})
		return
	}
	c.Count("dump unchanged by evaluation")
}

func runC19(c *eng.Ctx) {
	indents := []string{"", " ", "\t", "   ", "%s", "%"}
	levels := []int{0, 1, 3}
	unit := 0
	checkSrc := func(src string, nontrivial bool) {
		ast, err, pan := parseSafe([]byte(src))
		if err != nil || pan != "" {
			c.Violate(eng.Violation{Kind: "harness-expression-rejected", Key: "parse: " + src, Detail: fmt.Sprint(err, pan)})
			return
		}
		expr, ok := ast.(grammar.Expression)
		if !ok {
			return
		}
		c19AfterUse(c, src, unit)
		var rt any
		if pmsg := catch(func() { rt = pegref.FromImpl(ast) }); pmsg != "" {
			// a tree the parser returned that is not well formed (e.g. a binary match without a value): dumping it is what the property is
			// about, so try that too and report
			_, dp := dumpSafe(expr, " ", 0)
			c.Violate(eng.Violation{Kind: "malformed-tree-from-parser", Key: fmt.Sprintf("tree-of=%q", src), Coords: map[string]int{"u": unit}, Expected: "a well-formed syntax tree that can be dumped",
				Observed: "reading the tree: " + pmsg + "; ExpressionDump: " + dp})
			return
		}
		for ii, ind := range indents {
			for li, lvl := range levels {
				var want bytes.Buffer
				if pmsg := catch(func() { refDump(&want, rt, ind, lvl) }); pmsg != "" {
					// the reference renderer cannot read the tree the parser returned (e.g. a binary match without a value)
					_, dp := dumpSafe(expr, ind, lvl)
					c.Violate(eng.Violation{Kind: "malformed-tree-from-parser", Key: fmt.Sprintf("tree-of=%q", src), Coords: map[string]int{"u": unit}, Expected: "a well-formed syntax tree that can be dumped",
						Observed: "reference renderer: " + pmsg + "; ExpressionDump: " + dp})
					return
				}
				got, p := dumpSafe(expr, ind, lvl)
				got2, _ := dumpSafe(expr, ind, lvl)
				c.R.Evaluations += 2
				c.R.States++
				c.R.Traces++
				if nontrivial {
					c.R.Nontrivial++
				}
				key := fmt.Sprintf("tree-of=%q indent=%q level=%d", src, ind, lvl)
				co := map[string]int{"u": unit, "i": ii, "l": li}
				switch {
				case p != "":
					c.Violate(eng.Violation{Kind: "panic", Key: key, Coords: co, Observed: p})
				case got != want.String():
					c.Violate(eng.Violation{Kind: "dump-differs", Key: key, Coords: co, Expected: want.String(), Observed: got})
				case got != got2:
					c.Violate(eng.Violation{Kind: "dump-not-deterministic", Key: key, Coords: co})
				default:
					c.Count("dump ok")
					if len(c.R.Samples) < 2 && nontrivial && lvl == 1 && ind == " " {
						c.Sample(map[string]any{"expression": src, "indent": ind, "level": lvl, "dump": got})
					}
				}
			}
		}
	}
	// trees
	nl := 2
	if c.Thorough() {
		nl = 3
	}
	trees := c16Trees(c16Leaves(3), 2)
	trees = append(trees, c16Trees(c16Leaves(nl), 3)...)
	for _, t := range trees {
		unit++
		if !c.Mine(unit) || !c.Want("u", unit) {
			continue
		}
		if c.Expired() {
			return
		}
		p := &printer{o: rendOpts{ws: wsStyles[1], selSpell: 0, litStyle: StyleBare, parenNode: -1, notnot: -1}, ok: true}
		src := p.print(t, precOr, true)
		checkSrc(src, countNodes(t) >= 2)
	}
	// leaves: every operator x spelling x literal (escapes)
	paths := [][]string{{"a"}, {"a", "b"}, {"a", "0", "c"}, {"a", "b c"}, {"a/b", "é"}, {"a", "x.y", ""}, {"a", "cpu%"}, {"a", "%s", "%d"},
		// parts that a file-path cleaner would drop, resolve or merge (rendering a selector is joining its parts, nothing else)
		{"a", ".", "b"}, {"a", "..", "b"}, {"a/", "b"}, {"a", "", "b"}, {"..", "a"}, {"a", "b/"}}
	litsL := []string{"1", "-1.5", "abc", "a b", "", "/a/b", "é\"", "`", "\n\t", "\x00\x7f", "\\", "日本", " "}
	for op := 0; op < 8; op++ {
		for _, path := range paths {
			for _, lit := range litsL {
				for spell := 0; spell < 4; spell++ {
					unit++
					if !c.Mine(unit) || !c.Want("u", unit) {
						continue
					}
					if _, _, ok := spellSel(path, spell); !ok {
						continue
					}
					p := &printer{o: rendOpts{ws: wsStyles[1], selSpell: spell, litStyle: StyleQuoted, parenNode: -1, notnot: -1}, ok: true}
					src := p.print(&Match{Sel: path, Op: op, Lit: lit}, precOr, true)
					if p.ok {
						checkSrc(src, lit != "1" && lit != "abc")
					}
				}
			}
		}
	}
	// quantifiers: collection selector in every spelling (a JSON pointer of 1..3 segments included) x binding mode x a body whose
	// selectors use the same spelling, alone and under not / and
	for _, all := range []bool{false, true} {
		for _, path := range paths {
			for mode := 0; mode < 4; mode++ {
				for spell := 0; spell < 4; spell++ {
					unit++
					if !c.Mine(unit) || !c.Want("u", unit) {
						continue
					}
					if _, _, ok := spellSel(path, spell); !ok {
						continue
					}
					q := &Quant{All: all, Sel: path, Mode: mode, Idx: "k", Val: "v", Body: &Bin{Or: true, L: &Match{Sel: []string{"v", "cpu%"}, Op: OpEq, Lit: "50%"}, R: &Match{Sel: []string{"k"}, Op: OpNotEmpty}}}
					if mode == BindIndex {
						q.Body = &Match{Sel: []string{"k"}, Op: OpMatches, Lit: "%d"}
					}
					for _, e := range []any{q, &Not{X: q}, &Bin{Or: false, L: &Match{Sel: path, Op: OpEmpty}, R: q}} {
						p := &printer{o: rendOpts{ws: wsStyles[1], selSpell: spell, litStyle: StyleQuoted, parenNode: -1, notnot: -1}, ok: true}
						src := p.print(e, precOr, true)
						if p.ok {
							checkSrc(src, true)
						}
					}
				}
			}
		}
	}
	// every tree the parser returns for the token sequences of the language explorer (strings nobody would write included)
	if c.Want("f", 19) {
		tokenInputs(c, 19, "t", func(b []byte, co map[string]int) {
			if !c.Want("u", -co["t"]) {
				return
			}
			if ast, err, pan := parseSafe(b); err == nil && pan == "" && ast != nil {
				unit = -co["t"]
				checkSrc(string(b), false)
			}
		})
	}
	// Selector.String on constructed selectors
	if c.Mine(0) && c.Want("u", 0) {
		parts := []string{"a", "b c", "", "0", "x/y", "é"}
		var ps [][]string
		ps = append(ps, nil, []string{})
		for _, a := range parts {
			ps = append(ps, []string{a})
			for _, b := range parts {
				ps = append(ps, []string{a, b}, []string{a, b, a})
			}
		}
		for _, typ := range []int{0, 1, 2, 7} {
			for _, p := range ps {
				sel := grammar.Selector{Type: grammar.SelectorType(typ), Path: p}
				want := refSelString(pegref.RSel{Type: typ, Path: p})
				got := sel.String()
				c.R.Evaluations++
				c.R.States++
				c.R.Traces++
				if got != want {
					c.Violate(eng.Violation{Kind: "selector-string", Key: fmt.Sprintf("Selector{Type:%d, Path:%q}", typ, p), Coords: map[string]int{"u": 0}, Expected: want, Observed: got})
				} else {
					c.Count("selector string ok")
				}
			}
		}
	}
}
