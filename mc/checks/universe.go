package checks

import (
	"strings"

	. "verifmc/model"
)

// ---------- data universe (typed abstract documents) ----------

func str(s string) *Node { return NStr(false, s) }

var one = NInt(KInt, false, 1)

// leaves: V0 — every scalar kind, named types, json.Number, nil, pointers, odd kinds.
func leaves(thorough bool) []*Node {
	l := []*Node{
		NBool(false, true), NBool(false, false), NBool(true, true),
		NInt(KInt, false, -1), NInt(KInt, false, 0), one, NInt(KInt, false, 7), NInt(KInt, true, 1),
		NInt(KInt8, false, 1), NInt(KInt16, false, 1), NInt(KInt32, false, 1), NInt(KInt64, false, 1),
		NUint(KUint, false, 1), NUint(KUint8, false, 1), NUint(KUint16, false, 1), NUint(KUint32, false, 1), NUint(KUint64, false, 1),
		NFloat(KFloat32, false, 1.5), NFloat(KFloat64, false, 1), NFloat(KFloat64, false, 1.5), NFloat(KFloat64, true, 1.5), NFloat(KFloat32, false, 1.0000001192092896),
		NFloat(KFloat32, false, float64(float32(0.1))), NFloat(KFloat64, false, 0.1),
		NSlice(TAny, NFloat(KFloat32, false, float64(float32(0.1))), NFloat(KFloat64, false, 0.1)), NSlice(TAny, NFloat(KFloat64, false, 0.3), NFloat(KFloat32, false, float64(float32(0.1)))),
		str(""), str("a"), str("1"), str("true"), NStr(true, "a"), str("/a~1b"), str("/a/b"), str("\u00e9"), str("a\xffb"),
		NJSON("1"), NJSON("1.5"), NJSON("1e3"), NJSON("zz"),
		// integer-SPELLED numbers beyond int64 (the documented fallback to float64 must still apply), and the last one inside
		NJSON("9223372036854775808"), NJSON("-9223372036854775809"), NJSON("9223372036854775807"),
		NNilAny(), NPtr(one), NNilPtr(TInt), NPtr(NPtr(one)), NPtr(str("a")),
		NSlice(Sc(KUint8, false), NUint(KUint8, false, 'a')),
		{T: Sc(KChan, false)}, {T: Sc(KFunc, false)}, {T: Sc(KComplex, false), F: 1},
		{T: Sc(KUintptr, false), U: 1},
		// slices / arrays of NAMED byte-like and string-like element types (kind checks vs convertibility differ here)
		NSlice(Sc(KUint8, true), NUint(KUint8, true, 'a')), NArray(Sc(KUint8, false), NUint(KUint8, false, 'a')), NSlice(Sc(KString, true), NStr(true, "a")),
	}
	// a named type of every scalar kind (kind-based code paths must treat them like the predeclared ones)
	l = append(l,
		NInt(KInt8, true, 1), NInt(KInt16, true, 1), NInt(KInt32, true, 1), NInt(KInt64, true, 1),
		NUint(KUint, true, 1), NUint(KUint8, true, 1), NUint(KUint16, true, 1), NUint(KUint32, true, 1), NUint(KUint64, true, 1),
		NFloat(KFloat32, true, 1.5), NBool(true, false), NStr(true, "1"),
		// size boundaries: collections long enough to cross the usual growth steps of append (8, 16, 32)
		bigList(9, 8), bigList(17, 0), bigList(33, 32), bigMap(9),
		// map keys containing the pointer separator / escape character (an element path is a list of PARTS, keys go in verbatim)
		NMap(TStr, TAny, str("t/c"), one, str("t~u"), one), NMap(TStr, TAny, str("a~1b"), NInt(KInt, false, 2), str("~0"), one),
		// []interface{} with RUNS of one kind that contain the zero value (a literal that cannot be read in that kind must
		// be skipped element by element, never compared against a left-over zero)
		NSlice(TAny, NInt(KInt, false, 7), NInt(KInt, false, 0)), NSlice(TAny, NFloat(KFloat64, false, 1.5), NFloat(KFloat64, false, 0)), NSlice(TAny, NBool(false, true), NBool(false, false)),
		// typed pointer lists where a nil pointer PRECEDES the matching element (a nil element is skipped, it does not end the search)
		NSlice(&Type{K: KPtr, Elem: TInt}, NNilPtr(TInt), NPtr(one)), NArray(&Type{K: KPtr, Elem: TStr}, NNilPtr(TStr), NPtr(str("a"))),
		// interface lists holding pointer chains that END in nil at depth 2, and non-nil chains of depth 2
		NSlice(TAny, NPtr(NNilPtr(TInt)), one), NSlice(TAny, NPtr(NPtr(one)), NNilPtr(TInt)), NArray(TAny, NPtr(NNilPtr(TStr)), str("a")),
		NSlice(TAny, str("a"), NUint(KUint8, false, 3), NUint(KUint8, false, 0), str("")), NSlice(TAny, NFloat(KFloat32, false, 1.5), NFloat(KFloat64, false, 1.5), NFloat(KFloat32, false, 0)),
	)
	if thorough {
		l = append(l,
			NStr(true, ""),
			NInt(KInt64, false, 1000), NUint(KUint8, false, 0), NFloat(KFloat32, false, 1), NFloat(KFloat64, false, -1),
			str("abc"), str("a+"), str("1.5"), str("/a/b"), NJSON("-1"), NJSON("99999999999999999999"), NJSON("18446744073709551615"), NJSON("1E400"), NJSON("Inf"), NJSON("0x10"), NJSON("1_0"), NJSON(""),
			NPtr(NStr(true, "a")), NPtr(NPtr(str("a"))), NNilPtr(TStr), NPtr(NNilPtr(TInt)),
			&Node{T: Sc(KChan, false), Nil: true}, &Node{T: Sc(KFunc, false), Nil: true},
			NSlice(Sc(KInt8, false), NInt(KInt8, false, 97)), NSlice(Sc(KUint16, false), NUint(KUint16, false, 97)),
			// typed nil containers, pointers to containers, containers of pointers
			&Node{T: NSlice(TInt).T, Nil: true}, &Node{T: NMap(TStr, TInt).T, Nil: true}, NPtr(NSlice(TInt, one)), NPtr(NMap(TStr, TAny, str("a"), one)),
			NMap(TStr, &Type{K: KPtr, Elem: TInt}, str("a"), NPtr(one), str("b"), NNilPtr(TInt)), NArray(NSlice(TInt).T, NSlice(TInt, one), NSlice(TInt)),
			NSlice(TAny, NPtr(one), NPtr(str("a")), NNilAny()),
		)
	}
	return l
}

// bigList: n elements, all int 2 except a 1 at position pos (so `1 in a`, any/all fold over many elements)
func bigList(n, pos int) *Node {
	var items []*Node
	for i := 0; i < n; i++ {
		if i == pos {
			items = append(items, one)
		} else {
			items = append(items, NInt(KInt, false, 2))
		}
	}
	return NSlice(TAny, items...)
}

func bigMap(n int) *Node {
	var kv []*Node
	for i := 0; i < n; i++ {
		kv = append(kv, str(string(rune('a'+i))), NInt(KInt, false, int64(i)))
	}
	return NMap(TStr, TAny, kv...)
}

// deepDoc: a chain of maps / structs / slices d levels deep ending in leaf (path a.a.0.a.a.0...)
func deepDoc(d int, leaf *Node) *Node {
	cur := leaf
	for i := d; i >= 1; i-- {
		switch i % 3 {
		case 0:
			cur = NSlice(TAny, cur)
		case 1:
			cur = NMap(TStr, TAny, str("a"), cur)
		default:
			cur = NStruct(F{Name: "A", Tag: `bexpr:"a"`, V: NAny(cur)})
		}
	}
	return cur
}

func deepPath(d int) []string {
	var p []string
	for i := 1; i <= d; i++ {
		if i%3 == 0 {
			p = append(p, "0")
		} else {
			p = append(p, "a")
		}
	}
	return p
}

func containers(e, e2 *Node) []*Node {
	var out []*Node
	out = append(out,
		NMap(TStr, TAny, str("a"), e),
		NMap(TStr, TAny, str("a"), e, str("b"), e2),
		NMap(TStr, TAny),
		NMap(TStr, e.T, str("a"), e),
		NStruct(F{Name: "A", Tag: `bexpr:"a"`, V: e}, F{Name: "B", V: e2}, F{Name: "H", Tag: `bexpr:"-"`, V: e}, F{Name: "u", Unexp: true, V: e}),
		NStruct(F{Name: "J", Tag: `json:"a" bexpr:"j"`, V: e}, F{Name: "K", Tag: `json:"-" bexpr:"b,omitempty"`, V: e2}, F{Name: "A", Tag: `pointer:"c"`, V: e2}),
		NSlice(e.T, e),
		NSlice(TAny, e, e2),
		NSlice(TAny),
		NSlice(e.T),
		NArray(e.T, e),
		NSlice(&Type{K: KPtr, Elem: e.T}, NPtr(e), NNilPtr(e.T)),
		NMap(TInt, e.T, NInt(KInt, false, 0), e),
		NMap(Sc(KString, true), e.T, NStr(true, "a"), e),
		NMap(Sc(KBool, false), e.T, NBool(false, true), e),
		NMap(TAny, e.T, str("a"), e, NInt(KInt, false, 1), e),
	)
	if e.T.String() == e2.T.String() {
		out = append(out, NSlice(e.T, e, e2), NMap(TStr, e.T, str("a"), e, str("b"), e2))
	}
	n := len(out)
	for i := 0; i < n; i++ {
		if i%3 == 0 {
			out = append(out, NPtr(out[i]))
		}
	}
	return out
}

// jsonDocs: JSON-decoded documents in both decodings (float64 and json.Number).
var jsonTexts = []string{
	`{"a":1}`, `{"a":1.5}`, `{"a":"a"}`, `{"a":true}`, `{"a":null}`, `{"a":[1,null,"a"]}`, `{"a":{"a":1,"b":null}}`,
	`{"a":[{"a":1},{"a":"a"}]}`, `{"a":[]}`, `{"a":{}}`, `{"a":[[1],[2]]}`, `{"a":{"a":{"a":1}}}`, `[1,2]`, `{"a":1e3,"b":"1"}`,
	`{"a":["a","b"]}`, `{"a":[1,1.5,-1]}`, `{"a":{"0":1,"1":"a"}}`,
	// shapes for nested quantifiers that re-bind a name / range over the outer alias
	`{"a":[{"a":[1,2]},{"a":[3]}]}`, `{"a":[{"a":[2]},{"a":[1,1]}]}`, `{"a":{"k":{"a":[1]},"l":{"a":[2,1]}}}`, `{"a":[{"a":[{"a":1}]},{"a":[]}]}`,
	`{"a":{"a.a":1,"a/a":2,"a":{"a":3}},"b":1}`, `{"a":[8080,0,"http"],"b":[0.0,1.5]}`,
	// keys that BEGIN with a keyword of the language (a keyword needs a word boundary)
	`{"notes":"a","nota":1,"anything":{"a":1},"inner":["a"],"isle":"a","allow":1,"android":"a","orange":1,"matchesx":"a","containsy":"a","emptyz":"","es":"b","a":"a"}`,
}

// selectors whose first identifier begins with a keyword
var selsKeywordish = [][]string{{"notes"}, {"nota"}, {"anything", "a"}, {"inner"}, {"isle"}, {"allow"}, {"android"}, {"orange"}, {"matchesx"}, {"containsy"}, {"emptyz"}}

func docs(thorough bool) []*Node {
	ls := leaves(thorough)
	var mids []*Node
	mids = append(mids, ls...)
	red := []*Node{ls[5], ls[6], ls[22], ls[21], ls[0], ls[19], ls[30], ls[31], ls[32], ls[26]}
	for i, e := range ls {
		e2 := red[i%len(red)]
		mids = append(mids, containers(e, e2)...)
	}
	if thorough {
		// depth 2: containers of containers for a reduced set
		for i, e := range red {
			for _, c := range containers(e, red[(i+1)%len(red)]) {
				cs := containers(c, e)
				mids = append(mids, cs...)
			}
		}
	} else {
		for i, e := range red[:4] {
			for j, c := range containers(e, red[(i+1)%len(red)]) {
				if j%2 == 0 {
					cs := containers(c, e)
					mids = append(mids, cs[0], cs[4], cs[6])
				}
			}
		}
	}
	var out []*Node
	for _, m := range mids {
		out = append(out, NMap(TStr, TAny, str("a"), m))
		out = append(out, NStruct(F{Name: "A", Tag: `bexpr:"a"`, V: m}))
	}
	for i, m := range mids {
		if i%5 == 0 {
			out = append(out, NPtr(NStruct(F{Name: "A", Tag: `bexpr:"a"`, V: m}, F{Name: "b", Unexp: true, V: one})))
			out = append(out, NMap(TStr, m.T, str("a"), m))
		}
	}
	for _, t := range jsonTexts {
		out = append(out, FromJSON(t, false), FromJSON(t, true))
	}
	// the datum itself nil / a nil pointer (every selector fails to resolve; positive and negated operators alike)
	out = append(out, NNilAny(), NNilPtr(NStruct(F{Name: "A", Tag: `bexpr:"a"`, V: one}).T))
	for _, d := range []int{5, 8, 12} {
		out = append(out, deepDoc(d, one), deepDoc(d, str("a")), deepDoc(d, NMap(TStr, TAny, str("b"), one)))
	}
	return out
}

// ---------- expression universe ----------

var lits = []string{"", "a", "b", "1", "0", "-1", "1.5", "true", "T", "0x1", "1_0", "1e3", "inf", "99999999999999999999", "abc", "a+", "(", "7", "1.0", "+1", "1000", "/a/b", "nothing", "http",
	// beyond the float32 range / beside a float32 rounding midpoint (the literal must be read in the width of the value)
	"1e39", "1.00000005960464477539062500000000000001",
	// not exact in float32: a reading made for one float width must not be reused for the other
	"0.1",
	// legacy octal spellings: 010 is 8 (and 08 is not a number) wherever an integer literal is read
	"010", "08",
	// white space at the edges of a quoted literal is part of the literal
	" a ", " 1", " ",
	// strings are compared byte for byte: no case folding, no Unicode normalisation (data has "a" and the precomposed e-acute)
	"A", "\u00c9", "e\u0301", "\u00e9",
	// bytes that are not UTF-8 (spelled by an escape) and the replacement character: as pattern, as needle, as value
	"\xff", "\ufffd",
	// quoted values that look like JSON pointers WITH escapes: a value is its spelled text, never the decoded pointer
	"/a~1b", "/a~0b"}

var selsQuick = [][]string{{"a"}, {"b"}, {"a", "a"}, {"a", "b"}, {"a", "c"}, {"a", "0"}, {"a", "1"}, {"a", "2"}, {"a", "true"}, {"a", "A"}, {"a", "H"}, {"a", "u"},
	{"a", "a", "a"}, {"a", "0", "a"}, {"a", "a", "0"}, {"a", "0", "0"}, {"a", "a", "c"}, {"a", ""}, {"a", "x"}, {"a", "01"}}
var selsDeep = [][]string{deepPath(5), deepPath(8), deepPath(12), append(deepPath(8), "c"), append(deepPath(5), "b")}

var selsMore = [][]string{{"0"}, {"a", "B"}, {"a", "j"}, {"a", "J"}, {"a", "K"}, {"a", "-1"}, {"a", "0x0"}, {"a", "a", "b"}, {"a", "b", "a"}, {"a", "1", "a"}, {"a", "a", "1"}, {"a", "c", "a"},
	{"a", "a", "a", "a"}, {"a", "0", "a", "0"}, {"b", "a"}, {"a", "W"}}

func quantBodies(x, i string) []any {
	return []any{
		&Match{Sel: []string{x}, Op: OpEq, Lit: "1"},
		&Match{Sel: []string{x}, Op: OpNe, Lit: "a"},
		&Match{Sel: []string{x, "a"}, Op: OpEq, Lit: "1"},
		&Match{Sel: []string{x, "0"}, Op: OpEq, Lit: "1"},
		&Match{Sel: []string{x}, Op: OpEmpty},
		&Match{Sel: []string{i}, Op: OpEq, Lit: "0"},
		&Match{Sel: []string{i}, Op: OpEq, Lit: "a"},
		&Match{Sel: []string{i, "a"}, Op: OpEq, Lit: "a"},
		&Match{Sel: []string{"a", "a"}, Op: OpEq, Lit: "1"},
		&Match{Sel: []string{"a"}, Op: OpEq, Lit: "1"},
		&Match{Sel: []string{x}, Op: OpIn, Lit: "a"},
		&Match{Sel: []string{x}, Op: OpMatches, Lit: "a"},
	}
}

func matchExprs(sels [][]string, ls []string) []any {
	var out []any
	for _, s := range sels {
		for op := 0; op < 8; op++ {
			if op == OpEmpty || op == OpNotEmpty {
				out = append(out, &Match{Sel: s, Op: op})
				continue
			}
			for _, l := range ls {
				out = append(out, &Match{Sel: s, Op: op, Lit: l})
				if strings.HasPrefix(l, "/") && !strings.ContainsAny(l, "\"\\") {
					out = append(out, &Match{Sel: s, Op: op, Lit: l, Style: StyleQuoted})
				}
			}
		}
	}
	return out
}

func quantExprs(thorough bool) []any {
	var out []any
	csels := [][]string{{"a"}, {"a", "a"}, {"a", "0"}, {"a", "c"}, {"b"}}
	for _, s := range csels {
		for _, all := range []bool{false, true} {
			for mode := 0; mode < 4; mode++ {
				for _, names := range [][2]string{{"i", "x"}, {"a", "a"}, {"x", "a"}, {"a", "x"}} {
					for _, b := range quantBodies(names[1], names[0]) {
						out = append(out, &Quant{All: all, Sel: s, Mode: mode, Idx: names[0], Val: names[1], Body: b})
					}
				}
			}
		}
	}
	// nested
	for _, all := range []bool{false, true} {
		for mode := 0; mode < 4; mode++ {
			inner := &Quant{All: !all, Sel: []string{"x"}, Mode: BindDefault, Val: "y", Body: &Match{Sel: []string{"y"}, Op: OpEq, Lit: "1"}}
			out = append(out, &Quant{All: all, Sel: []string{"a"}, Mode: mode, Idx: "i", Val: "x", Body: inner})
			inner2 := &Quant{All: !all, Sel: []string{"x", "a"}, Mode: BindValue, Val: "x", Body: &Match{Sel: []string{"x"}, Op: OpEq, Lit: "1"}}
			out = append(out, &Quant{All: all, Sel: []string{"a"}, Mode: mode, Idx: "i", Val: "x", Body: inner2})
			// inner quantifier re-binds the outer name and ranges over the outer alias; a third level re-binds it again
			inner3 := &Quant{All: !all, Sel: []string{"x", "a"}, Mode: BindDefault, Val: "x", Body: &Match{Sel: []string{"x"}, Op: OpEq, Lit: "1"}}
			out = append(out, &Quant{All: all, Sel: []string{"a"}, Mode: mode, Idx: "i", Val: "x", Body: inner3})
			inner4 := &Quant{All: all, Sel: []string{"x", "a"}, Mode: BindValue, Val: "y", Body: &Quant{All: !all, Sel: []string{"b"}, Mode: BindDefault, Val: "x", Body: &Match{Sel: []string{"y"}, Op: OpEq, Lit: "1"}}}
			out = append(out, &Quant{All: all, Sel: []string{"a"}, Mode: mode, Idx: "i", Val: "x", Body: inner4})
			if thorough {
				// depth 3, outer alias used as inner collection, inner shadowing outer
				in3 := &Quant{All: all, Sel: []string{"y"}, Mode: BindBoth, Idx: "j", Val: "z", Body: &Bin{Or: true, L: &Match{Sel: []string{"z"}, Op: OpEq, Lit: "1"}, R: &Match{Sel: []string{"j"}, Op: OpEq, Lit: "0"}}}
				mid := &Quant{All: !all, Sel: []string{"x"}, Mode: BindDefault, Val: "y", Body: in3}
				out = append(out, &Quant{All: all, Sel: []string{"a"}, Mode: mode, Idx: "i", Val: "x", Body: mid})
			}
		}
	}
	return out
}

func connectiveExprs() []any {
	var out []any
	atoms := []any{
		&Match{Sel: []string{"a"}, Op: OpEq, Lit: "1"}, &Match{Sel: []string{"a", "a"}, Op: OpEq, Lit: "1"}, &Match{Sel: []string{"a", "c"}, Op: OpNe, Lit: "1"},
		&Match{Sel: []string{"a"}, Op: OpEmpty}, &Match{Sel: []string{"zz"}, Op: OpEq, Lit: "1"}, &Match{Sel: []string{"a", "0"}, Op: OpIn, Lit: "a"},
	}
	// two DIFFERENT paths whose joined display strings coincide (a["a.a"] vs a.a.a, a["a/a"] vs a.a.a): a memo keyed by the
	// rendered selector would confuse them inside one expression
	atoms = append(atoms, &Match{Sel: []string{"a", "a.a"}, Op: OpEq, Lit: "1"}, &Match{Sel: []string{"a", "a/a"}, Op: OpEq, Lit: "2"}, &Match{Sel: []string{"a", "a", "a"}, Op: OpEq, Lit: "3"})
	atoms = append(atoms, &Quant{All: false, Sel: []string{"a"}, Mode: BindBoth, Idx: "k", Val: "k", Body: &Match{Sel: []string{"b"}, Op: OpEq, Lit: "1"}})
	for _, a := range atoms {
		out = append(out, &Not{X: a})
		for _, b := range atoms {
			out = append(out, &Bin{Or: false, L: a, R: b}, &Bin{Or: true, L: a, R: b})
		}
	}
	return out
}

func exprs(thorough bool) []any {
	var out []any
	out = append(out, matchExprs(selsQuick, lits)...)
	out = append(out, matchExprs(selsDeep, []string{"1", "a", ""})...)
	out = append(out, matchExprs(selsKeywordish, []string{"1", "a", "nothing"})...)
	for _, sel := range selsDeep {
		out = append(out, &Quant{All: false, Sel: sel[:len(sel)-1], Mode: BindBoth, Idx: "i", Val: "x", Body: &Match{Sel: []string{"x"}, Op: OpEq, Lit: "1"}})
	}
	if thorough {
		out = append(out, matchExprs(selsMore, lits)...)
	}
	out = append(out, quantExprs(thorough)...)
	out = append(out, connectiveExprs()...)
	return out
}
