package checks

import (
	"fmt"

	bexpr "github.com/hashicorp/go-bexpr"

	"verifmc/eng"
	. "verifmc/model"
)

func init() {
	eng.Register(&eng.Check{
		ID:          "C03",
		Rule:        "differential on the implementation: all ordered pairs (A,B) of a pool of sub-expressions (atoms of every operator, absent-key atoms, erroring atoms, quantified, negated, nested) x a data set on which each sub-expression takes each of T/F/E; composites (A) and (B), (A) or (B), not (A), not not (A), both De Morgan rewrites, and all triples A o1 (B o2 C) / (A o1 B) o2 C over a sub-pool of 8 (thorough 14) parts x the four operator pairs are compared with the 3x3 / 3x1 outcome table applied to the implementation's own outcomes of A and B evaluated alone. Distinct by construction; non-trivial = composite evaluated (every case exercises a connective). The evidence lists which table cells were observed.",
		Assumptions: []string{"three-valued outcomes: an error is an error whatever boolean accompanies it (the (true,err) shape is C09's business)", "bounded: sub-expression pool and data set as stated"},
		Run:         runC03,
		Finalize: func(tier string, r *eng.Result) {
			need := 9 + 9 + 3
			if len(r.Sets["cells"]) < need {
				r.Notes = append(r.Notes, fmt.Sprintf("only %d of %d table cells observed", len(r.Sets["cells"]), need))
			}
		},
	})
}

func c03Pool(thorough bool) []any {
	m := func(sel []string, op int, lit string) any { return &Match{Sel: sel, Op: op, Lit: lit} }
	a, aa, ac, a0 := []string{"a"}, []string{"a", "a"}, []string{"a", "c"}, []string{"a", "0"}
	pool := []any{
		m(a, OpEq, "1"), m(a, OpNe, "1"), m(a, OpIn, "a"), m(a, OpNotIn, "a"), m(a, OpEmpty, ""), m(a, OpNotEmpty, ""), m(a, OpMatches, "a+"), m(a, OpNotMatches, "a+"),
		m(aa, OpEq, "1"), m(aa, OpEq, "a"), m(aa, OpIn, "a"), m(aa, OpEmpty, ""),
		m(ac, OpEq, "1"), m(ac, OpNe, "1"), m(ac, OpEmpty, ""), m(ac, OpNotMatches, "a"), // absent-key atoms (not present)
		m([]string{"zz"}, OpEq, "1"), m(a, OpMatches, "("), m(a0, OpEq, "1"), m(a0, OpIn, "a"), // erroring atoms on most data
		m(a, OpEq, "true"), m(a, OpEq, "a"), m(a, OpEq, "1.5"),
		&Quant{All: false, Sel: a, Mode: BindDefault, Val: "x", Body: m([]string{"x"}, OpEq, "1")},
		&Quant{All: true, Sel: a, Mode: BindDefault, Val: "x", Body: m([]string{"x"}, OpEq, "1")},
		&Quant{All: true, Sel: ac, Mode: BindBoth, Idx: "k", Val: "v", Body: m([]string{"v"}, OpEq, "1")},
		&Not{X: m(a, OpEq, "1")}, &Not{X: m([]string{"zz"}, OpEq, "1")},
		&Bin{Or: false, L: m(a, OpEq, "1"), R: m(aa, OpEq, "1")},
		&Bin{Or: true, L: m(aa, OpEq, "1"), R: m(a, OpEmpty, "")},
	}
	// a quantifier that binds one name to index AND value: an error only when it is reached over a non-empty collection
	pool = append(pool, &Quant{All: false, Sel: a, Mode: BindBoth, Idx: "k", Val: "k", Body: m([]string{"b"}, OpEq, "1")},
		&Quant{All: true, Sel: aa, Mode: BindDefault, Val: "x", Body: &Quant{All: false, Sel: []string{"x"}, Mode: BindBoth, Idx: "j", Val: "j", Body: m(a, OpEmpty, "")}})
	// a quantifier whose placeholder is called like a top-level key of the data, next to an atom on that key: after the quantifier has
	// finished (early exit included) the name means the datum's key again
	pool = append(pool, &Quant{All: false, Sel: a, Mode: BindDefault, Val: "b", Body: m([]string{"b"}, OpEq, "1")}, &Quant{All: true, Sel: a, Mode: BindBoth, Idx: "zz", Val: "b", Body: m([]string{"b"}, OpNe, "1")},
		m([]string{"b"}, OpEq, "1"), m([]string{"b"}, OpEq, "x"))
	// different paths with the same rendered text (see universe.go): each must keep its own value inside one expression
	pool = append(pool, m([]string{"a", "a.a"}, OpEq, "1"), m([]string{"a", "a/a"}, OpEq, "2"), m([]string{"a", "a", "a"}, OpEq, "3"), m([]string{"a", "a", "a"}, OpEq, "1"))
	if thorough {
		pool = append(pool,
			m(a, OpEq, "0"), m(a, OpNe, "a"), m(a, OpIn, "1"), m(a, OpNotIn, "1"), m(aa, OpNe, "1"), m(aa, OpNotIn, "a"), m(aa, OpNotEmpty, ""), m(aa, OpMatches, "a"),
			m(ac, OpIn, "1"), m(ac, OpNotIn, "1"), m(ac, OpNotEmpty, ""), m(ac, OpMatches, "a"),
			m([]string{"a", "b"}, OpEq, "1"), m([]string{"a", "1"}, OpEq, "a"), m([]string{"a", "a", "a"}, OpEq, "1"), m([]string{"b"}, OpEq, "1"),
			&Quant{All: false, Sel: aa, Mode: BindValue, Val: "x", Body: m([]string{"x"}, OpNe, "1")},
			&Quant{All: false, Sel: a, Mode: BindIndex, Idx: "i", Body: m([]string{"i"}, OpEq, "1")},
			&Quant{All: true, Sel: a, Mode: BindBoth, Idx: "i", Val: "x", Body: &Bin{Or: true, L: m([]string{"i"}, OpEq, "0"), R: m([]string{"x"}, OpEq, "1")}},
			&Not{X: &Not{X: m(aa, OpEq, "1")}},
			&Bin{Or: true, L: m([]string{"zz"}, OpEq, "1"), R: m(a, OpEq, "1")},
			&Bin{Or: false, L: &Not{X: m(a, OpEmpty, "")}, R: m(a0, OpEq, "1")},
		)
	}
	return pool
}

func c03Docs(thorough bool) []*Node {
	all := docs(false)
	stride := 37
	if thorough {
		stride = 9
	}
	var out []*Node
	for i := 0; i < len(all); i += stride {
		out = append(out, all[i])
	}
	// hand-picked data making the pool take every value
	mp := func(kv ...*Node) *Node { return NMap(TStr, TAny, kv...) }
	out = append(out, NNilAny(), NNilPtr(NStruct(F{Name: "A", V: one}).T)) // a nil datum: every part errors, so does every composite (not: no exception)
	out = append(out,
		mp(str("a"), one), mp(str("a"), str("a")), mp(str("a"), str("")), mp(str("a"), str("aaa")),
		mp(str("a"), mp(str("a"), one)), mp(str("a"), mp(str("a"), str("a"))), mp(str("a"), mp()),
		mp(str("a"), NSlice(TAny, one, one)), mp(str("a"), NSlice(TAny, one, str("a"))), mp(str("a"), NSlice(TAny)), mp(str("a"), NSlice(TAny, str("a"))),
		mp(str("a"), NNilAny()), mp(str("b"), one), mp(str("a"), NSlice(TAny, one, str("q")), str("b"), str("x")), mp(str("a"), NSlice(TAny, str("q")), str("b"), one), mp(str("a"), NBool(false, true)), mp(str("a"), NFloat(KFloat64, false, 1.5)),
		mp(str("a"), mp(str("c"), one)), mp(str("a"), mp(str("a"), one, str("c"), str("a"))),
		mp(str("a"), mp(str("a.a"), one, str("a/a"), NInt(KInt, false, 2), str("a"), mp(str("a"), NInt(KInt, false, 3)))),
		mp(str("a"), mp(str("a.a"), NInt(KInt, false, 3), str("a"), mp(str("a"), one))),
	)
	return out
}

const (
	vT = 0
	vF = 1
	vE = 2
)

func cls3(o obsT) int {
	switch {
	case o.panicked:
		return -1
	case o.class == E:
		return vE
	case o.class == T:
		return vT
	}
	return vF
}

var v3name = []string{"T", "F", "E"}

func and3(a, b int) int {
	if a == vF || a == vE {
		return a
	}
	return b
}
func or3(a, b int) int {
	if a == vT || a == vE {
		return a
	}
	return b
}
func not3(a int) int {
	switch a {
	case vT:
		return vF
	case vF:
		return vT
	}
	return vE
}

func runC03(c *eng.Ctx) {
	pool := c03Pool(c.Thorough())
	ds := c03Docs(c.Thorough())
	data := make([]interface{}, len(ds))
	for i, d := range ds {
		data[i] = Build(d).Interface()
	}
	evalAll := func(e any) ([]int, string, bool) {
		src := Render(e)
		ev, err := bexpr.CreateEvaluator(src)
		if err != nil {
			c.Violate(eng.Violation{Kind: "harness-expression-rejected", Key: "create: " + src, Detail: err.Error()})
			return nil, src, false
		}
		out := make([]int, len(ds))
		for i := range ds {
			o := observe(ev, data[i])
			c.R.Evaluations++
			out[i] = cls3(o)
			if o.panicked {
				c.Violate(eng.Violation{Kind: "panic", Key: caseKey(src, ds[i], defaultCfg), Case: describe(src, ds[i], defaultCfg), Observed: o.String()})
			}
		}
		return out, src, true
	}
	// outcomes of the parts alone
	alone := make([][]int, len(pool))
	srcs := make([]string, len(pool))
	for i, e := range pool {
		var ok bool
		alone[i], srcs[i], ok = evalAll(e)
		if !ok {
			return
		}
	}
	c.MaxOf("pool", int64(len(pool)))
	c.MaxOf("documents", int64(len(ds)))
	check := func(pi int, name string, comp any, want func(di int) int, cell func(di int) string) {
		got, src, ok := evalAll(comp)
		if !ok {
			return
		}
		for di := range ds {
			c.R.States++
			c.R.Traces++
			c.R.Nontrivial++
			w := want(di)
			if w < 0 || got[di] < 0 {
				continue // panics already reported
			}
			c.SetAdd("cells", cell(di))
			if got[di] != w {
				c.Violate(eng.Violation{Kind: "table-mismatch:" + name, Key: caseKey(src, ds[di], defaultCfg), Coords: map[string]int{"p": pi},
					Case: describe(src, ds[di], defaultCfg), Expected: v3name[w] + " (" + cell(di) + ")", Observed: v3name[got[di]]})
			} else {
				c.Count(name)
			}
		}
		c.Sample(map[string]any{"composite": src, "rule": name})
	}
	checkSrc := func(pi int, name, src string, want func(di int) int, cell func(di int) string) {
		ev, err := bexpr.CreateEvaluator(src)
		if err != nil {
			return
		}
		for di := range ds {
			o := observe(ev, data[di])
			c.R.Evaluations++
			c.R.States++
			c.R.Traces++
			c.R.Nontrivial++
			got, w := cls3(o), want(di)
			if w < 0 || got < 0 {
				continue
			}
			if got != w {
				c.Violate(eng.Violation{Kind: "table-mismatch:" + name, Key: caseKey(src, ds[di], defaultCfg), Coords: map[string]int{"p": pi},
					Case: describe(src, ds[di], defaultCfg), Expected: v3name[w] + " (" + cell(di) + ")", Observed: v3name[got]})
			} else {
				c.Count(name)
			}
		}
	}
	n := len(pool)
	for pi := 0; pi < n*n; pi++ {
		if !c.Mine(pi) || !c.Want("p", pi) {
			continue
		}
		if c.Expired() {
			return
		}
		ai, bi := pi/n, pi%n
		A, B := pool[ai], pool[bi]
		a, b := alone[ai], alone[bi]
		check(pi, "and", &Bin{Or: false, L: A, R: B}, func(d int) int { return and3(a[d], b[d]) }, func(d int) string { return "and:" + v3name[a[d]] + "," + v3name[b[d]] })
		check(pi, "or", &Bin{Or: true, L: A, R: B}, func(d int) int { return or3(a[d], b[d]) }, func(d int) string { return "or:" + v3name[a[d]] + "," + v3name[b[d]] })
		check(pi, "demorgan-and", &Bin{Or: true, L: &Not{X: A}, R: &Not{X: B}}, func(d int) int { return not3(and3(a[d], b[d])) }, func(d int) string { return "and:" + v3name[a[d]] + "," + v3name[b[d]] })
		check(pi, "demorgan-or", &Bin{Or: false, L: &Not{X: A}, R: &Not{X: B}}, func(d int) int { return not3(or3(a[d], b[d])) }, func(d int) string { return "or:" + v3name[a[d]] + "," + v3name[b[d]] })
		check(pi, "not-and", &Not{X: &Bin{Or: false, L: A, R: B}}, func(d int) int { return not3(and3(a[d], b[d])) }, func(d int) string { return "and:" + v3name[a[d]] + "," + v3name[b[d]] })
		check(pi, "not-or", &Not{X: &Bin{Or: true, L: A, R: B}}, func(d int) int { return not3(or3(a[d], b[d])) }, func(d int) string { return "or:" + v3name[a[d]] + "," + v3name[b[d]] })
		if bi == 0 {
			check(pi, "not", &Not{X: A}, func(d int) int { return not3(a[d]) }, func(d int) string { return "not:" + v3name[a[d]] })
			check(pi, "notnot", &Not{X: &Not{X: A}}, func(d int) int { return a[d] }, func(d int) string { return "not:" + v3name[a[d]] })
			// right-nested chains: A and (A or B)-style grouping through three operands
			check(pi, "and-chain", &Bin{Or: false, L: A, R: &Bin{Or: false, L: A, R: A}}, func(d int) int { return and3(a[d], and3(a[d], a[d])) }, func(d int) string { return "and:" + v3name[a[d]] + "," + v3name[a[d]] })
		}
	}
	// triples: every (A, B, C) over a sub-pool x the four operator pairs x both groupings; the inner node must be evaluated
	// with ITS OWN operator's short-circuit rule whatever the outer operator is (a chain loop that carries the outer rule
	// into a right operand of the other operator is only visible with three operands)
	sub := []int{0, 1, 4, 12, 16, 17, 23, 30}
	if c.Thorough() {
		sub = []int{0, 1, 2, 4, 8, 12, 13, 16, 17, 22, 23, 24, 26, 30}
	}
	m := len(sub)
	op3 := func(or bool) func(x, y int) int {
		if or {
			return or3
		}
		return and3
	}
	opn := map[bool]string{false: "and", true: "or"}
	for ti := 0; ti < m*m*m; ti++ {
		if !c.Mine(ti) || !c.Want("p", n*n+ti) {
			continue
		}
		if c.Expired() {
			return
		}
		ai, bi, ci := sub[ti/(m*m)], sub[ti/m%m], sub[ti%m]
		A, B, C := pool[ai], pool[bi], pool[ci]
		a, b, cc := alone[ai], alone[bi], alone[ci]
		for _, o1 := range []bool{false, true} {
			for _, o2 := range []bool{false, true} {
				o1, o2 := o1, o2
				f1, f2 := op3(o1), op3(o2)
				// A o1 (B o2 C)
				check(n*n+ti, "triple-right:"+opn[o1]+"("+opn[o2]+")", &Bin{Or: o1, L: A, R: &Bin{Or: o2, L: B, R: C}},
					func(d int) int { return f1(a[d], f2(b[d], cc[d])) }, func(d int) string { return opn[o1] + ":" + v3name[a[d]] + "," + v3name[f2(b[d], cc[d])] })
				// the same three parts WITHOUT parentheses around the composite: where the implementation accepts the spelling (bare
				// quantifiers are not part of the language on the pinned tree) it must mean what the precedence of the grammar says:
				// `and` binds tighter than `or`, chains nest to the right
				if src3, ok := bare3(A, B, C, o1, o2); ok {
					if _, err := bexpr.CreateEvaluator(src3); err == nil {
						want3 := func(d int) int { return f1(a[d], f2(b[d], cc[d])) }
						if !o1 && o2 { // A and B or C = (A and B) or C
							want3 = func(d int) int { return or3(and3(a[d], b[d]), cc[d]) }
						}
						checkSrc(n*n+ti, "triple-bare:"+opn[o1]+","+opn[o2], src3, want3, func(d int) string { return "bare:" + v3name[a[d]] + "," + v3name[b[d]] + "," + v3name[cc[d]] })
					} else {
						c.Count("bare-spelling-not-in-the-language")
					}
				}
				// (A o1 B) o2 C
				check(n*n+ti, "triple-left:("+opn[o1]+")"+opn[o2], &Bin{Or: o2, L: &Bin{Or: o1, L: A, R: B}, R: C},
					func(d int) int { return f2(f1(a[d], b[d]), cc[d]) }, func(d int) string { return opn[o2] + ":" + v3name[f1(a[d], b[d])] + "," + v3name[cc[d]] })
			}
		}
	}
}

// bare3 renders `A o1 B o2 C` without parentheses around the operands that do not need them for their OWN structure: match
// expressions, negations and quantifiers are written bare, composite operands keep their parentheses.
func bare3(A, B, C any, o1, o2 bool) (string, bool) {
	part := func(e any) (string, bool) {
		switch e.(type) {
		case *Match, *Quant:
			return Render(e), true
		case *Not:
			return Render(e), true
		}
		return "(" + Render(e) + ")", true
	}
	w := map[bool]string{false: " and ", true: " or "}
	sa, _ := part(A)
	sb, _ := part(B)
	sc, _ := part(C)
	return sa + w[o1] + sb + w[o2] + sc, true
}
