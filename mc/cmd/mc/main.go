// mc: dispatcher of the model-checking checks.
//
//	mc check <ID> --tier quick|thorough [--workers N]
//	mc worker <ID> --tier T --shard i --nshards n --out file   (internal)
//	mc replay <file>
//	mc list
package main

import (
	"flag"
	"fmt"
	"os"

	_ "verifmc/checks"
	"verifmc/eng"
)

func main() {
	if len(os.Args) < 2 {
		fmt.Fprintln(os.Stderr, "usage: mc check|worker|replay|list ...")
		os.Exit(2)
	}
	switch os.Args[1] {
	case "list":
		for _, id := range eng.IDs() {
			fmt.Println(id)
		}
	case "check":
		fs := flag.NewFlagSet("check", flag.ExitOnError)
		tier := fs.String("tier", "quick", "")
		workers := fs.Int("workers", 16, "")
		if len(os.Args) < 3 {
			os.Exit(2)
		}
		fs.Parse(os.Args[3:])
		os.Exit(eng.CheckMain(os.Args[2], *tier, *workers))
	case "worker":
		fs := flag.NewFlagSet("worker", flag.ExitOnError)
		tier := fs.String("tier", "quick", "")
		shard := fs.Int("shard", 0, "")
		nshards := fs.Int("nshards", 1, "")
		out := fs.String("out", "", "")
		fs.Parse(os.Args[3:])
		os.Exit(eng.WorkerMain(os.Args[2], *tier, *shard, *nshards, 0, nil, *out))
	case "replay":
		os.Exit(eng.ReplayMain(os.Args[2]))
	default:
		fmt.Fprintln(os.Stderr, "unknown command")
		os.Exit(2)
	}
}
