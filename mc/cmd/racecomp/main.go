//go:build verif

// racecomp: free-running complement of C12 (build with -race; overlay in "add" mode only).
package main

import (
	"fmt"
	"os"

	"verifmc/checks"
)

func main() {
	tier := "quick"
	if len(os.Args) > 1 {
		tier = os.Args[1]
	}
	only := ""
	if len(os.Args) > 2 {
		only = os.Args[2]
	}
	fmt.Println(checks.RaceComplementOf(tier, only))
}
