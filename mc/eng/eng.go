// Package eng is the shared driver of all checks: registry, process sharding,
// result merging, known-findings filter, replay files and evidence files.
package eng

import (
	"context"
	"crypto/sha1"
	"encoding/json"
	"fmt"
	"os"
	"os/exec"
	"path/filepath"
	"sort"
	"strconv"
	"strings"
	"sync"
	"time"
)

// Violation is one failing case. Key is the canonical identity of the failing
// case (used for known-finding matching); Coords lets `mc replay` find the
// case again in the deterministic enumeration.
type Violation struct {
	Property string         `json:"property"`
	Kind     string         `json:"kind"`
	Key      string         `json:"key"`
	Coords   map[string]int `json:"coords,omitempty"`
	Case     map[string]any `json:"case,omitempty"`
	Expected string         `json:"expected,omitempty"`
	Observed string         `json:"observed,omitempty"`
	Detail   string         `json:"detail,omitempty"`
	Tier     string         `json:"tier,omitempty"`
}

// Result is what one worker (shard) reports; results are merged by summing.
type Result struct {
	Evaluations    int64               `json:"evaluations"`
	States         int64               `json:"states"`
	Transitions    int64               `json:"transitions"`
	Traces         int64               `json:"traces"`
	Nontrivial     int64               `json:"nontrivial"`
	Hist           map[string]int64    `json:"hist"`
	Samples        []any               `json:"samples"`
	Violations     []Violation         `json:"violations"`
	ViolationCount int64               `json:"violation_count"`
	Caps           []string            `json:"caps"`
	Notes          []string            `json:"notes"`
	Sets           map[string][]string `json:"sets"`       // named string sets, merged by union (e.g. table cells seen)
	Max            map[string]int64    `json:"max"`        // merged by max
	KnownHits      map[string]int64    `json:"known_hits"` // known-finding key -> hits (never stored as violations)
}

func newResult() *Result {
	return &Result{Hist: map[string]int64{}, Sets: map[string][]string{}, Max: map[string]int64{}, KnownHits: map[string]int64{}}
}

const maxViolationsPerWorker = 40

type Ctx struct {
	ID       string
	Tier     string
	Shard    int
	NShards  int
	Seed     int64
	Only     map[string]int // replay filter (nil = everything)
	R        *Result
	deadline time.Time
	capped   bool
	setIdx   map[string]map[string]bool
	known    map[string]bool
}

func (c *Ctx) Thorough() bool { return c.Tier == "thorough" }

// Mine says whether work item i belongs to this shard.
func (c *Ctx) Mine(i int) bool { return i%c.NShards == c.Shard }

// MineMixed is Mine over a fixed bijective scrambling of the index: for enumerations whose cost depends on the low digits of the index
// in a base that shares a factor with the number of shards (strings over a 32-symbol alphabet on 16 shards: the first symbol alone
// would decide the shard, and the shard of "(" would get all the expensive inputs). Still a partition: every index has exactly one owner.
func (c *Ctx) MineMixed(i int) bool {
	h := uint32(i) * 2654435761
	return int(h>>16)%c.NShards == c.Shard
}

// Want implements the replay filter: in replay mode only the case whose
// coordinates equal the recorded ones is executed.
func (c *Ctx) Want(name string, idx int) bool {
	if c.Only == nil {
		return true
	}
	v, ok := c.Only[name]
	return !ok || v == idx
}

func (c *Ctx) Replaying() bool { return c.Only != nil }

// Expired is polled by enumeration loops; an expired internal deadline ends the
// run with exhaustive:false (never a violation).
func (c *Ctx) Expired() bool {
	if c.capped {
		return true
	}
	if !c.deadline.IsZero() && time.Now().After(c.deadline) {
		c.capped = true
		c.R.Caps = append(c.R.Caps, fmt.Sprintf("shard %d/%d: internal deadline hit", c.Shard, c.NShards))
		return true
	}
	return false
}

func (c *Ctx) Cap(msg string) { c.R.Caps = append(c.R.Caps, msg) }
func (c *Ctx) Note(msg string) {
	for _, n := range c.R.Notes {
		if n == msg {
			return
		}
	}
	c.R.Notes = append(c.R.Notes, msg)
}
func (c *Ctx) Count(k string)           { c.R.Hist[k]++ }
func (c *Ctx) CountN(k string, n int64) { c.R.Hist[k] += n }
func (c *Ctx) SetAdd(set, elem string) {
	if c.setIdx == nil {
		c.setIdx = map[string]map[string]bool{}
	}
	m := c.setIdx[set]
	if m == nil {
		m = map[string]bool{}
		c.setIdx[set] = m
	}
	if !m[elem] {
		m[elem] = true
		c.R.Sets[set] = append(c.R.Sets[set], elem)
	}
}
func (c *Ctx) MaxOf(k string, v int64) {
	if v > c.R.Max[k] {
		c.R.Max[k] = v
	}
}

// Sample keeps a few written-out cases (first ones of each shard).
func (c *Ctx) Sample(s any) {
	if len(c.R.Samples) < 3 {
		c.R.Samples = append(c.R.Samples, s)
	}
}

func (c *Ctx) Violate(v Violation) {
	v.Property = c.ID
	v.Tier = c.Tier
	if c.known == nil {
		c.known = map[string]bool{}
		for _, k := range loadKnown() {
			if k.Property == c.ID {
				c.known[k.Key] = true
			}
		}
	}
	if c.known[v.Key] {
		c.R.KnownHits[v.Key]++
		c.R.Hist["known-finding"]++
		return
	}
	c.R.ViolationCount++
	if len(c.R.Violations) < maxViolationsPerWorker {
		// keep distinct kinds visible: do not store more than 8 of the same kind
		n := 0
		for _, o := range c.R.Violations {
			if o.Kind == v.Kind {
				n++
			}
		}
		if n < 8 {
			c.R.Violations = append(c.R.Violations, v)
		}
	}
	c.R.Hist["violation:"+v.Kind]++
}

type Check struct {
	ID          string
	Level       string // evidence level
	Rule        string
	Assumptions []string
	Run         func(c *Ctx)
	// Finalize runs in the parent on the merged result (vacuity checks etc.). It may add notes/caps.
	Finalize func(tier string, r *Result)
	// Workers overrides the shard count (0 = default 16).
	Workers int
	// NeedsOverlay: "" plain build, "add" or "full" (informational; run.sh picks the binary).
	NeedsOverlay string
}

var registry = map[string]*Check{}

func Register(c *Check)       { registry[c.ID] = c }
func Lookup(id string) *Check { return registry[id] }
func IDs() []string {
	var ids []string
	for id := range registry {
		ids = append(ids, id)
	}
	sort.Strings(ids)
	return ids
}

func verifDir() string {
	if d := os.Getenv("VERIF_DIR"); d != "" {
		return d
	}
	return "/verif"
}

func deadlineFor(tier string) time.Duration {
	if s := os.Getenv("VERIF_DEADLINE_S"); s != "" {
		if n, err := strconv.Atoi(s); err == nil {
			return time.Duration(n) * time.Second
		}
	}
	if tier == "thorough" {
		return 100 * time.Minute
	}
	return 8 * time.Minute
}

// WorkerMain runs one shard and writes the Result as JSON to out.
func WorkerMain(id, tier string, shard, nshards int, seed int64, only map[string]int, out string) int {
	chk := Lookup(id)
	if chk == nil {
		fmt.Fprintln(os.Stderr, "unknown check", id)
		return 2
	}
	c := &Ctx{ID: id, Tier: tier, Shard: shard, NShards: nshards, Seed: seed, Only: only, R: newResult()}
	c.deadline = time.Now().Add(deadlineFor(tier))
	startWatchdog(workerNoReturn(c, out))
	startDeadlineGuard(c, out)
	chk.Run(c)
	b, err := json.Marshal(c.R)
	if err != nil {
		fmt.Fprintln(os.Stderr, "marshal:", err)
		return 2
	}
	if err := os.WriteFile(out, b, 0o644); err != nil {
		fmt.Fprintln(os.Stderr, "write:", err)
		return 2
	}
	return 0
}

func merge(dst, src *Result) {
	dst.Evaluations += src.Evaluations
	dst.States += src.States
	dst.Transitions += src.Transitions
	dst.Traces += src.Traces
	dst.Nontrivial += src.Nontrivial
	for k, v := range src.Hist {
		dst.Hist[k] += v
	}
	for k, v := range src.KnownHits {
		dst.KnownHits[k] += v
	}
	for k, v := range src.Max {
		if v > dst.Max[k] {
			dst.Max[k] = v
		}
	}
	for k, v := range src.Sets {
		seen := map[string]bool{}
		for _, e := range dst.Sets[k] {
			seen[e] = true
		}
		for _, e := range v {
			if !seen[e] {
				seen[e] = true
				dst.Sets[k] = append(dst.Sets[k], e)
			}
		}
		sort.Strings(dst.Sets[k])
	}
	if len(dst.Samples) < 6 {
		dst.Samples = append(dst.Samples, src.Samples...)
		if len(dst.Samples) > 6 {
			dst.Samples = dst.Samples[:6]
		}
	}
	dst.Violations = append(dst.Violations, src.Violations...)
	dst.ViolationCount += src.ViolationCount
	dst.Caps = append(dst.Caps, src.Caps...)
	for _, n := range src.Notes {
		dup := false
		for _, m := range dst.Notes {
			if m == n {
				dup = true
			}
		}
		if !dup {
			dst.Notes = append(dst.Notes, n)
		}
	}
}

// ---- known findings ----

type knownEntry struct {
	Property string
	Key      string
	What     string
}

// known_findings.txt lines:
//
//	known: property=<id> key=<canonical key> :: <what fails>
//	fixed: property=<id> <commit> <what failed>
func loadKnown() []knownEntry {
	b, err := os.ReadFile(filepath.Join(verifDir(), "known_findings.txt"))
	if err != nil {
		return nil
	}
	var out []knownEntry
	for _, ln := range strings.Split(string(b), "\n") {
		ln = strings.TrimSpace(ln)
		if !strings.HasPrefix(ln, "known:") {
			continue
		}
		rest := strings.TrimSpace(strings.TrimPrefix(ln, "known:"))
		var e knownEntry
		if !strings.HasPrefix(rest, "property=") {
			continue
		}
		sp := strings.IndexByte(rest, ' ')
		if sp < 0 {
			continue
		}
		e.Property = strings.TrimPrefix(rest[:sp], "property=")
		rest = strings.TrimSpace(rest[sp:])
		if !strings.HasPrefix(rest, "key=") {
			continue
		}
		rest = strings.TrimPrefix(rest, "key=")
		if i := strings.Index(rest, " :: "); i >= 0 {
			e.Key, e.What = rest[:i], rest[i+4:]
		} else {
			e.Key = rest
		}
		out = append(out, e)
	}
	return out
}

// ---- parent ----

type Evidence struct {
	PropertyID  string         `json:"property_id"`
	Tier        string         `json:"tier"`
	Seed        int64          `json:"seed"`
	Level       string         `json:"level"`
	Coverage    map[string]any `json:"coverage"`
	Assumptions []string       `json:"assumptions"`
	WallS       float64        `json:"wall_s"`
	Violations  int64          `json:"violations"`
}

func seedFromEnv() int64 {
	if s := os.Getenv("VERIF_SEED"); s != "" {
		if n, err := strconv.ParseInt(s, 10, 64); err == nil {
			return n
		}
	}
	return 0
}

// CheckMain is the parent: spawn workers, merge, filter, write evidence, print verdict.
func CheckMain(id, tier string, workers int) int {
	chk := Lookup(id)
	if chk == nil {
		fmt.Fprintln(os.Stderr, "unknown check", id)
		return 2
	}
	t0 := time.Now()
	seed := seedFromEnv()
	if chk.Workers > 0 {
		workers = chk.Workers
	}
	if workers <= 0 {
		workers = 16
	}
	self, err := os.Executable()
	if err != nil {
		fmt.Fprintln(os.Stderr, err)
		return 2
	}
	tmp, err := os.MkdirTemp(filepath.Join(verifDir(), ".build"), "run-"+id+"-")
	if err != nil {
		os.MkdirAll(filepath.Join(verifDir(), ".build"), 0o755)
		tmp, err = os.MkdirTemp(filepath.Join(verifDir(), ".build"), "run-"+id+"-")
		if err != nil {
			fmt.Fprintln(os.Stderr, err)
			return 2
		}
	}
	defer os.RemoveAll(tmp)

	merged := newResult()
	var mu sync.Mutex
	var wg sync.WaitGroup
	crashes := 0
	for i := 0; i < workers; i++ {
		wg.Add(1)
		go func(i int) {
			defer wg.Done()
			out := filepath.Join(tmp, fmt.Sprintf("w%d.json", i))
			errf := filepath.Join(tmp, fmt.Sprintf("w%d.err", i))
			ef, _ := os.Create(errf)
			// hard stop: a worker that overruns its internal deadline by two minutes is killed and counted as a cap
			// (exhaustive:false), never as a violation - slowness is not evidence against the property
			ctx, cancel := context.WithTimeout(context.Background(), deadlineFor(tier)+2*time.Minute)
			defer cancel()
			cmd := exec.CommandContext(ctx, self, "worker", id, "--tier", tier, "--shard", strconv.Itoa(i), "--nshards", strconv.Itoa(workers), "--out", out)
			cmd.Env = append(os.Environ(), "GOMAXPROCS="+gomaxprocs(chk), "VERIF_SEED="+strconv.FormatInt(seed, 10))
			cmd.Stdout = ef
			cmd.Stderr = ef
			runErr := cmd.Run()
			ef.Close()
			mu.Lock()
			defer mu.Unlock()
			b, rerr := os.ReadFile(out)
			var r Result
			if ctx.Err() == context.DeadlineExceeded {
				merged.Caps = append(merged.Caps, fmt.Sprintf("worker %d/%d killed %v after its internal deadline (no result from this shard)", i, workers, 2*time.Minute))
				return
			}
			if runErr != nil || rerr != nil || json.Unmarshal(b, &r) != nil {
				crashes++
				eb, _ := os.ReadFile(errf)
				tail := string(eb)
				if len(tail) > 3000 {
					tail = tail[:1500] + "\n...\n" + tail[len(tail)-1500:]
				}
				merged.ViolationCount++
				merged.Violations = append(merged.Violations, Violation{Property: id, Tier: tier, Kind: "worker-crash",
					Key:    fmt.Sprintf("worker-crash shard=%d/%d", i, workers),
					Detail: fmt.Sprintf("worker %d/%d died (%v) — unrecoverable fatal error in the code under test or harness:\n%s", i, workers, runErr, tail)})
				return
			}
			merge(merged, &r)
		}(i)
	}
	wg.Wait()
	if chk.Finalize != nil {
		chk.Finalize(tier, merged)
	}

	// known findings were filtered inside the workers (Ctx.Violate); report them
	for _, k := range loadKnown() {
		if k.Property == id && merged.KnownHits[k.Key] > 0 {
			fmt.Printf("KNOWN-FINDING: property=%s %s\n", id, k.What)
		}
	}
	unknownV := merged.Violations

	exhaustive := len(merged.Caps) == 0 && crashes == 0
	states := merged.States
	if states == 0 {
		states = merged.Evaluations
	}
	trans := merged.Transitions
	if trans == 0 {
		trans = merged.Evaluations
	}
	samples := merged.Samples
	if len(samples) == 0 {
		samples = []any{"(no case executed)"}
	}
	cov := map[string]any{
		"states":                        states,
		"transitions":                   trans,
		"traces_validated_against_impl": merged.Traces,
		"samples":                       samples,
		"evaluations":                   merged.Evaluations,
		"distinct_nontrivial":           merged.Nontrivial,
		"rule":                          chk.Rule,
		"exhaustive":                    exhaustive,
		"histogram":                     merged.Hist,
		"caps_hit":                      merged.Caps,
		"notes":                         merged.Notes,
		"workers":                       workers,
	}
	if len(merged.Sets) > 0 {
		cov["sets"] = merged.Sets
	}
	if len(merged.Max) > 0 {
		cov["max"] = merged.Max
	}
	nUnknown := merged.ViolationCount
	level := chk.Level
	if level == "" {
		level = "model_checking"
	}
	ev := Evidence{PropertyID: id, Tier: tier, Seed: seed, Level: level, Coverage: cov, Assumptions: chk.Assumptions,
		WallS: time.Since(t0).Seconds(), Violations: nUnknown}
	if ev.Assumptions == nil {
		ev.Assumptions = []string{}
	}
	evDir := filepath.Join(verifDir(), "evidence")
	if d := os.Getenv("VERIF_EVIDENCE_DIR"); d != "" {
		evDir = d // runs against deliberately broken trees (tools/mutant.sh, tools/mutsweep.sh) must not overwrite the evidence of the real tree
	}
	os.MkdirAll(evDir, 0o755)
	eb, _ := json.MarshalIndent(ev, "", " ")
	os.WriteFile(filepath.Join(evDir, id+".json"), eb, 0o644)

	fmt.Printf("%s %s: cases=%d impl-calls=%d nontrivial=%d violations=%d (known-matched=%d) exhaustive=%v wall=%.1fs\n",
		id, tier, states, merged.Evaluations, merged.Nontrivial, merged.ViolationCount, merged.Hist["known-finding"], exhaustive, time.Since(t0).Seconds())
	for _, c := range merged.Caps {
		fmt.Println("  cap:", c)
	}
	if merged.ViolationCount == 0 {
		return 0
	}
	// write replay files: one per distinct kind first, at most 12 files
	os.MkdirAll(filepath.Join(verifDir(), "replays"), 0o755)
	sort.SliceStable(unknownV, func(i, j int) bool { return len(unknownV[i].Key) < len(unknownV[j].Key) })
	written := 0
	seenKind := map[string]int{}
	for _, v := range unknownV {
		if seenKind[v.Kind] >= 3 || written >= 12 {
			continue
		}
		seenKind[v.Kind]++
		h := sha1.Sum([]byte(v.Key))
		p := filepath.Join(verifDir(), "replays", fmt.Sprintf("%s-%x.json", id, h[:5]))
		vb, _ := json.MarshalIndent(v, "", " ")
		os.WriteFile(p, vb, 0o644)
		written++
		fmt.Printf("VIOLATION property=%s replay=%s\n", id, p)
		fmt.Printf("  kind=%s key=%s\n", v.Kind, trunc(v.Key, 400))
		if v.Expected != "" || v.Observed != "" {
			fmt.Printf("  expected=%s observed=%s\n", v.Expected, v.Observed)
		}
		if v.Detail != "" {
			fmt.Printf("  detail: %s\n", trunc(v.Detail, 600))
		}
	}
	return 1
}

func gomaxprocs(chk *Check) string {
	if chk.Workers == 1 {
		return "16"
	}
	return "1"
}

func trunc(s string, n int) string {
	if len(s) > n {
		return s[:n] + "…"
	}
	return s
}

// ReplayMain re-executes the recorded case only.
func ReplayMain(path string) int {
	b, err := os.ReadFile(path)
	if err != nil {
		fmt.Fprintln(os.Stderr, err)
		return 2
	}
	var v Violation
	if err := json.Unmarshal(b, &v); err != nil {
		fmt.Fprintln(os.Stderr, err)
		return 2
	}
	chk := Lookup(v.Property)
	if chk == nil {
		fmt.Fprintln(os.Stderr, "unknown property", v.Property)
		return 2
	}
	only := v.Coords
	if only == nil {
		only = map[string]int{}
	}
	tier := v.Tier
	if tier == "" {
		tier = "quick"
	}
	c := &Ctx{ID: v.Property, Tier: tier, Shard: 0, NShards: 1, Only: only, R: newResult()}
	startWatchdog(func(desc string, cpu float64, blocked bool) {
		fmt.Printf("VIOLATION property=%s replay=%s\n  reproduced: kind=no-return key=%s\n  no return after %.0f CPU-seconds (blocked=%v)\n", v.Property, path, trunc(desc, 400), cpu, blocked)
		os.Exit(1)
	})
	chk.Run(c)
	fmt.Printf("replay %s: executed=%d violations=%d\n", path, c.R.Evaluations, c.R.ViolationCount)
	for _, x := range c.R.Violations {
		if x.Key == v.Key {
			fmt.Printf("VIOLATION property=%s replay=%s\n  reproduced: kind=%s key=%s\n  expected=%s observed=%s\n  %s\n", v.Property, path, x.Kind, trunc(x.Key, 400), x.Expected, x.Observed, trunc(x.Detail, 600))
			return 1
		}
	}
	if c.R.ViolationCount > 0 {
		x := c.R.Violations[0]
		fmt.Printf("VIOLATION property=%s replay=%s\n  a different violation at the same coordinates: kind=%s key=%s\n", v.Property, path, x.Kind, trunc(x.Key, 400))
		return 1
	}
	fmt.Println("not reproduced on the current tree")
	return 0
}
