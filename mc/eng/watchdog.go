package eng

import (
	"encoding/json"
	"fmt"
	"os"
	"runtime"
	"strconv"
	"sync/atomic"
	"syscall"
	"time"
)

// No-return watchdog. "Evaluate / Execute return normally" cannot be decided by waiting, but a call on one of the
// tiny data of the alphabets that has consumed two CPU-minutes of THIS worker (a single-threaded process whose
// ordinary calls take microseconds: a margin of 10^7) without returning is reported as a violation instead of being
// left to the deadline (where it would only show up as a cap). The criterion is CPU time of the process, not wall
// time, so a loaded or suspended machine cannot trigger it. Parsing is deliberately NOT covered (the unlimited parse
// of nested parentheses is legitimately exponential, see C11).

var (
	wdIn    atomic.Int64  // calls on the implementation currently in progress (re-entrant hooks, scheduler threads)
	wdTicks atomic.Uint64 // bumped at every call begin / end: progress
	// what the latest call was made on; plain variables, read by the watchdog only once the process is stuck
	wdA, wdB interface{}
)

// armed is set once, before the check starts, by startWatchdog. In a process without a watchdog (the free-running -race
// complement of C12, where goroutines really run in parallel) the brackets do nothing - in particular they do not write
// the plain variables above, which the race detector would rightly report as a race OF THE HARNESS.
var armed bool

// CallBegin / CallEnd bracket every call of Evaluate / Execute made by a check.
func CallBegin(a, b interface{}) {
	if !armed {
		return
	}
	wdA, wdB = a, b
	wdIn.Add(1)
	wdTicks.Add(1)
}

func CallEnd() {
	if !armed {
		return
	}
	wdIn.Add(-1)
	wdTicks.Add(1)
}

func cpuSeconds() float64 {
	var ru syscall.Rusage
	if syscall.Getrusage(syscall.RUSAGE_SELF, &ru) != nil {
		return 0
	}
	return float64(ru.Utime.Sec+ru.Stime.Sec) + float64(ru.Utime.Usec+ru.Stime.Usec)/1e6
}

func noReturnLimit() float64 {
	if s := os.Getenv("VERIF_NORETURN_CPU_S"); s != "" {
		if n, err := strconv.Atoi(s); err == nil && n > 0 {
			return float64(n)
		}
	}
	return 120
}

// startWatchdog: fire(description, cpu, blocked) is called at most once, from the watchdog goroutine, while the main goroutine is
// stuck inside the implementation; it must not return to normal processing (the caller exits the process).
//
// Two ways of not returning are told apart: SPINNING (the call has burnt `limit` CPU-seconds of this process) and BLOCKED (no call
// began or ended for blockedWall seconds of wall time while the process used practically no CPU: a runnable process is scheduled
// within milliseconds even on a loaded machine, so minutes at zero CPU mean it waits for something that never comes - e.g. a
// lock the library left held when an earlier call panicked).
func startWatchdog(fire func(desc string, cpu float64, blocked bool)) {
	limit := noReturnLimit()
	const blockedWall = 150.0
	armed = true
	go func() {
		var last uint64
		var since float64 = -1
		var sinceWall time.Time
		for {
			time.Sleep(2 * time.Second)
			t := wdTicks.Load()
			if wdIn.Load() <= 0 || t != last || since < 0 {
				last, since, sinceWall = t, cpuSeconds(), time.Now()
				continue
			}
			used := cpuSeconds() - since
			if used >= limit {
				fire(describeCall(wdA, wdB), used, false)
				return
			}
			if w := time.Since(sinceWall).Seconds(); w >= blockedWall && used < 0.02*w {
				// a process that was suspended (and has just been resumed) looks the same for an instant: look again
				time.Sleep(10 * time.Second)
				if wdTicks.Load() != t || wdIn.Load() <= 0 {
					continue
				}
				fire(describeCall(wdA, wdB)+" | goroutines: "+trunc(stacks(), 1500), used, true)
				return
			}
		}
	}()
}

func stacks() string {
	buf := make([]byte, 1<<16)
	n := runtime.Stack(buf, true)
	return string(buf[:n])
}

func describeCall(a, b interface{}) string {
	type exprer interface{ Expression() string }
	s := ""
	if e, ok := a.(exprer); ok && e != nil {
		func() {
			defer func() { recover() }()
			s = "expr=" + e.Expression()
		}()
	} else {
		s = fmt.Sprintf("callee=%T", a)
	}
	d := ""
	func() {
		defer func() {
			if recover() != nil {
				d = fmt.Sprintf("%T", b)
			}
		}()
		d = fmt.Sprintf("%#v", b)
	}()
	return s + " | datum=" + trunc(d, 600)
}

// workerNoReturn is the fire function of a worker: record the violation, write the shard result, leave.
func workerNoReturn(c *Ctx, out string) func(string, float64, bool) {
	return func(desc string, cpu float64, blocked bool) {
		obs := fmt.Sprintf("no return after %.0f CPU-seconds of this single-threaded worker; the worker was stopped", cpu)
		if blocked {
			obs = "the call is blocked: no call began or ended for 150 s while the worker used practically no CPU (it waits for something that never comes); the worker was stopped"
		}
		c.Violate(Violation{Kind: "no-return", Key: desc, Expected: "the call returns (the calls of this alphabet take microseconds)", Observed: obs,
			Detail: "replaying re-runs the check's enumeration up to the first call that does not return"})
		c.R.Caps = append(c.R.Caps, fmt.Sprintf("shard %d/%d: stopped at a call that did not return; the rest of the shard was not explored", c.Shard, c.NShards))
		writeAndExit(c, out)
	}
}

func writeAndExit(c *Ctx, out string) {
	b, err := json.Marshal(c.R)
	if err == nil {
		err = os.WriteFile(out, b, 0o644)
	}
	if err != nil {
		fmt.Fprintln(os.Stderr, "watchdog:", err)
		os.Exit(2)
	}
	os.Exit(0)
}

// startDeadlineGuard: a worker whose main loop has not come back one minute after its internal deadline writes what it has
// itself (violations found so far would otherwise be lost when the parent kills it) and leaves; a cap, never an alarm.
func startDeadlineGuard(c *Ctx, out string) {
	if c.deadline.IsZero() {
		return
	}
	go func() {
		time.Sleep(time.Until(c.deadline.Add(time.Minute)))
		defer func() {
			if recover() != nil {
				os.Exit(0) // the main loop was still writing the result: leave it to the parent's hard stop
			}
		}()
		c.R.Caps = append(c.R.Caps, fmt.Sprintf("shard %d/%d: main loop did not return within a minute of the internal deadline; partial result written by the guard", c.Shard, c.NShards))
		writeAndExit(c, out)
	}()
}
