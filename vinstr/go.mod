module vinstr

go 1.22.0

toolchain go1.23.5

require golang.org/x/tools v0.29.0
