// vinstr: generate an overlay of /repo with verification instrumentation.
// usage: vinstr -mode add|full -repo /repo -out DIR [-rt verifmc/vrt]
// The overlay is generated from /repo's current working tree on every run; /repo itself is never modified.
package main

import (
	"bytes"
	"encoding/json"
	"flag"
	"fmt"
	"go/ast"
	"go/importer"
	"go/parser"
	"go/printer"
	"go/token"
	"go/types"
	"os"
	"path/filepath"
	"sort"
	"strconv"
	"strings"

	"golang.org/x/tools/go/ast/astutil"
)

var (
	repo = flag.String("repo", "/repo", "")
	out  = flag.String("out", "", "")
	rt   = flag.String("rt", "verifmc/vrt", "runtime package import path")
	mode = flag.String("mode", "full", "add: only the added accessor files; full: also rewrite sources (map-order seam, shared-access hooks)")
)

type pkgInfo struct {
	dir, path, name string
}

func main() {
	flag.Parse()
	os.MkdirAll(*out, 0o755)
	overlay := map[string]string{}
	stats := map[string]int{}
	pkgs := []pkgInfo{{*repo, "github.com/hashicorp/go-bexpr", "bexpr"}, {filepath.Join(*repo, "grammar"), "github.com/hashicorp/go-bexpr/grammar", "grammar"}}
	for _, p := range pkgs {
		instrument(p, overlay, stats)
	}
	b, _ := json.MarshalIndent(map[string]any{"Replace": overlay}, "", " ")
	os.WriteFile(filepath.Join(*out, "overlay.json"), b, 0o644)
	var ks []string
	for k := range stats {
		ks = append(ks, k)
	}
	sort.Strings(ks)
	for _, k := range ks {
		fmt.Printf("%s=%d ", k, stats[k])
	}
	fmt.Println()
}

// verifClassesSrc: accessor returning, in pre-order of the rule table as it exists at RUN TIME, the data of every
// character-class matcher (the unicode tables are the ones rangeTable() really returned). Written with reflection so
// that it does not depend on the shape of the generated node types beyond the name charClassMatcher and its fields.
const verifClassesSrc = `
// VerifClass is the run-time content of one character-class matcher of the rule table.
type VerifClass struct {
	Val        string
	Chars      []rune
	Ranges     []rune
	Classes    []*unicode.RangeTable
	IgnoreCase bool
	Inverted   bool
}

// VerifClasses walks the rule table g in pre-order.
func VerifClasses() []VerifClass {
	var out []VerifClass
	var walk func(v reflect.Value)
	walk = func(v reflect.Value) {
		if !v.CanInterface() && v.CanAddr() {
			v = reflect.NewAt(v.Type(), unsafe.Pointer(v.UnsafeAddr())).Elem()
		}
		switch v.Kind() {
		case reflect.Interface, reflect.Ptr:
			if v.IsNil() {
				return
			}
			if v.Kind() == reflect.Ptr {
				if cm, ok := v.Interface().(*charClassMatcher); ok {
					out = append(out, VerifClass{Val: cm.val, Chars: cm.chars, Ranges: cm.ranges, Classes: cm.classes, IgnoreCase: cm.ignoreCase, Inverted: cm.inverted})
					return
				}
			}
			walk(v.Elem())
		case reflect.Struct:
			for i := 0; i < v.NumField(); i++ {
				f := v.Field(i)
				switch f.Kind() {
				case reflect.Interface, reflect.Ptr, reflect.Slice, reflect.Struct:
					walk(f)
				}
			}
		case reflect.Slice:
			for i := 0; i < v.Len(); i++ {
				walk(v.Index(i))
			}
		}
	}
	walk(reflect.ValueOf(g).Elem().FieldByName("rules"))
	return out
}
`

// pureExpr: identifier / selector / parenthesised chains (re-evaluating them has no side effects)
func pureExpr(e ast.Expr) bool {
	switch x := e.(type) {
	case *ast.Ident:
		return true
	case *ast.ParenExpr:
		return pureExpr(x.X)
	case *ast.SelectorExpr:
		return pureExpr(x.X)
	case *ast.StarExpr:
		return pureExpr(x.X)
	}
	return false
}

func isGenerated(f *ast.File) bool {
	for _, cg := range f.Comments {
		if cg.Pos() < f.Package && strings.Contains(cg.Text(), "Code generated") {
			return true
		}
	}
	return false
}

func instrument(p pkgInfo, overlay map[string]string, stats map[string]int) {
	fset := token.NewFileSet()
	ents, _ := os.ReadDir(p.dir)
	var files []*ast.File
	var names []string
	for _, e := range ents {
		n := e.Name()
		if e.IsDir() || !strings.HasSuffix(n, ".go") || strings.HasSuffix(n, "_test.go") {
			continue
		}
		f, err := parser.ParseFile(fset, filepath.Join(p.dir, n), nil, parser.ParseComments)
		if err != nil {
			fmt.Fprintln(os.Stderr, "parse:", err)
			os.Exit(2)
		}
		files = append(files, f)
		names = append(names, n)
	}
	info := &types.Info{Types: map[ast.Expr]types.TypeAndValue{}, Selections: map[*ast.SelectorExpr]*types.Selection{}, Uses: map[*ast.Ident]types.Object{}, Defs: map[*ast.Ident]types.Object{}}
	conf := types.Config{Importer: importer.ForCompiler(fset, "source", nil), Error: func(err error) { fmt.Fprintln(os.Stderr, "typecheck:", err) }}
	var pkg *types.Package
	if *mode != "add" {
		pkg, _ = conf.Check(p.path, fset, files, info)
		if pkg == nil {
			fmt.Fprintln(os.Stderr, "type check failed for", p.path)
			os.Exit(2)
		}
	}

	generated := map[string]bool{}
	for i, f := range files {
		generated[filepath.Join(p.dir, names[i])] = isGenerated(f)
	}
	ownField := func(v *types.Var) bool {
		if v.Pkg() == nil || !strings.HasPrefix(v.Pkg().Path(), "github.com/hashicorp/go-bexpr") {
			return false
		}
		return !generated[fset.Position(v.Pos()).Filename] && !strings.HasSuffix(fset.Position(v.Pos()).Filename, "grammar.go")
	}
	// is expression rooted at a purely local struct value (no pointer indirection)?
	var stackLocal func(e ast.Expr) bool
	stackLocal = func(e ast.Expr) bool {
		switch x := e.(type) {
		case *ast.ParenExpr:
			return stackLocal(x.X)
		case *ast.Ident:
			o, ok := info.Uses[x].(*types.Var)
			if !ok || o.Parent() == pkg.Scope() {
				return false
			}
			_, isPtr := o.Type().Underlying().(*types.Pointer)
			return !isPtr
		case *ast.SelectorExpr:
			s := info.Selections[x]
			if s == nil || s.Kind() != types.FieldVal || s.Indirect() {
				return false
			}
			return stackLocal(x.X)
		}
		return false
	}

	var globals []string
	for i, f := range files {
		fn := filepath.Join(p.dir, names[i])
		gen := generated[fn]
		usedRT := false
		site := func(n ast.Node) ast.Expr {
			pos := fset.Position(n.Pos())
			return &ast.BasicLit{Kind: token.STRING, Value: strconv.Quote(fmt.Sprintf("%s:%d:%d", names[i], pos.Line, pos.Column))}
		}
		hook := func(fnName string, e ast.Expr) ast.Expr {
			usedRT = true
			var at ast.Node = e
			if se, ok := e.(*ast.SelectorExpr); ok {
				at = se.Sel // children may already have been replaced by position-less nodes
			}
			return &ast.ParenExpr{X: &ast.StarExpr{X: &ast.CallExpr{
				Fun:  &ast.SelectorExpr{X: ast.NewIdent("vrt"), Sel: ast.NewIdent(fnName)},
				Args: []ast.Expr{&ast.UnaryExpr{Op: token.AND, X: e}, site(at)},
			}}}
		}
		// package-level vars declared in this file
		for _, d := range f.Decls {
			if gd, ok := d.(*ast.GenDecl); ok && gd.Tok == token.VAR {
				for _, s := range gd.Specs {
					for _, n := range s.(*ast.ValueSpec).Names {
						if n.Name != "_" {
							globals = append(globals, n.Name)
						}
					}
				}
			}
		}
		// map element writes (m[k] = v, m[k]++, delete(m, k)) count as writes of the map object m
		mapWrite := map[ast.Node]bool{}
		ast.Inspect(f, func(x ast.Node) bool {
			mark := func(e ast.Expr) {
				if ix, ok := e.(*ast.IndexExpr); ok {
					if tv, ok := info.Types[ix.X]; ok && tv.Type != nil {
						if _, isMap := tv.Type.Underlying().(*types.Map); isMap {
							mapWrite[ix.X] = true
						}
					}
				}
			}
			switch st := x.(type) {
			case *ast.AssignStmt:
				for _, l := range st.Lhs {
					mark(l)
				}
			case *ast.IncDecStmt:
				mark(st.X)
			case *ast.CallExpr:
				if id, ok := st.Fun.(*ast.Ident); ok && (id.Name == "delete" || id.Name == "clear") && len(st.Args) >= 1 {
					mapWrite[st.Args[0]] = true
				}
			case *ast.GoStmt:
				pos := fset.Position(st.Pos())
				fmt.Printf("NOTE go statement at %s:%d: goroutines started by the code under test are not scheduled by the explorer\n", names[i], pos.Line)
			}
			return true
		})
		isWritePos := func(c *astutil.Cursor) bool {
			if mapWrite[c.Node()] {
				return true
			}
			switch par := c.Parent().(type) {
			case *ast.AssignStmt:
				return c.Name() == "Lhs" && par.Tok != token.DEFINE
			case *ast.IncDecStmt:
				return true
			case *ast.RangeStmt:
				return (c.Name() == "Key" || c.Name() == "Value") && par.Tok == token.ASSIGN
			}
			return false
		}
		if *mode == "add" {
			continue
		}
		astutil.Apply(f, nil, func(c *astutil.Cursor) bool {
			switch n := c.Node().(type) {
			case *ast.ImportSpec:
				switch n.Path.Value {
				case `"sync"`:
					n.Path.Value = strconv.Quote(strings.TrimSuffix(*rt, "/vrt") + "/vsync")
					n.Name = ast.NewIdent("sync")
					stats["sync_imports"]++
				case `"sync/atomic"`:
					n.Path.Value = strconv.Quote(strings.TrimSuffix(*rt, "/vrt") + "/vatomic")
					n.Name = ast.NewIdent("atomic")
					stats["atomic_imports"]++
				}
			case *ast.FuncDecl:
				// an independent count of parser steps (C11): every entry of (*parser).parseExpr, whatever the parser itself counts
				if p.name == "grammar" && n.Name.Name == "parseExpr" && n.Recv != nil && n.Body != nil {
					call := &ast.ExprStmt{X: &ast.CallExpr{Fun: &ast.SelectorExpr{X: ast.NewIdent("vrt"), Sel: ast.NewIdent("ParseStep")}}}
					n.Body.List = append([]ast.Stmt{call}, n.Body.List...)
					usedRT = true
					stats["parse_step_hooks"]++
				}
			case *ast.IndexExpr:
				// element of a slice (heap memory that may be shared through the slice header)
				if gen {
					return true
				}
				xt, ok := info.Types[n.X]
				if !ok || xt.Type == nil {
					return true
				}
				if _, isSlice := xt.Type.Underlying().(*types.Slice); !isSlice {
					return true
				}
				if tv, ok := info.Types[n]; !ok || !tv.IsValue() || !tv.Addressable() {
					return true
				}
				if u, ok := c.Parent().(*ast.UnaryExpr); ok && u.Op == token.AND {
					return true
				}
				if isWritePos(c) {
					c.Replace(hook("W", n))
					stats["elem_writes"]++
				} else {
					c.Replace(hook("R", n))
					stats["elem_reads"]++
				}
			case *ast.CallExpr:
				if id, ok := n.Fun.(*ast.Ident); ok && id.Name == "append" && len(n.Args) >= 1 && !gen {
					if _, isBuiltin := info.Uses[id].(*types.Builtin); isBuiltin {
						usedRT = true
						n.Args[0] = &ast.CallExpr{Fun: &ast.SelectorExpr{X: ast.NewIdent("vrt"), Sel: ast.NewIdent("AppendHook")}, Args: []ast.Expr{n.Args[0], site(n)}}
						stats["append_hooks"]++
					}
				}
				if se, ok := n.Fun.(*ast.SelectorExpr); ok && (se.Sel.Name == "MapKeys" || se.Sel.Name == "MapRange") && len(n.Args) == 0 {
					if tv, ok := info.Types[se.X]; ok && tv.Type.String() == "reflect.Value" {
						usedRT = true
						c.Replace(&ast.CallExpr{Fun: &ast.SelectorExpr{X: ast.NewIdent("vrt"), Sel: ast.NewIdent(se.Sel.Name)}, Args: []ast.Expr{se.X, site(n)}})
						stats[strings.ToLower(se.Sel.Name)+"_seams"]++
					}
				}
			case *ast.RangeStmt:
				tv, ok := info.Types[n.X]
				if !ok || tv.Type == nil {
					return true
				}
				if _, isMap := tv.Type.Underlying().(*types.Map); !isMap {
					return true
				}
				pos := fset.Position(n.Pos())
				if !pureExpr(n.X) {
					stats["unseamed_range_over_map"]++
					fmt.Printf("UNSEAMED map iteration (range over a non-trivial map expression) at %s:%d\n", names[i], pos.Line)
					return true
				}
				usedRT = true
				stats["range_over_map_seams"]++
				keyID := ast.NewIdent("vrtKey__")
				okID := ast.NewIdent("vrtOK__")
				origKey, origVal, tok := n.Key, n.Value, n.Tok
				mexpr := n.X
				isBlank := func(e ast.Expr) bool {
					id, ok := e.(*ast.Ident)
					return e == nil || (ok && id.Name == "_")
				}
				var pre []ast.Stmt
				valLhs := ast.Expr(ast.NewIdent("_"))
				if !isBlank(origVal) {
					valLhs = origVal
				}
				if tok == token.ASSIGN {
					pre = append(pre, &ast.DeclStmt{Decl: &ast.GenDecl{Tok: token.VAR, Specs: []ast.Spec{&ast.ValueSpec{Names: []*ast.Ident{okID}, Type: ast.NewIdent("bool")}}}})
					pre = append(pre, &ast.AssignStmt{Lhs: []ast.Expr{valLhs, okID}, Tok: token.ASSIGN, Rhs: []ast.Expr{&ast.IndexExpr{X: mexpr, Index: keyID}}})
				} else {
					pre = append(pre, &ast.AssignStmt{Lhs: []ast.Expr{valLhs, okID}, Tok: token.DEFINE, Rhs: []ast.Expr{&ast.IndexExpr{X: mexpr, Index: keyID}}})
				}
				pre = append(pre, &ast.IfStmt{Cond: &ast.UnaryExpr{Op: token.NOT, X: okID}, Body: &ast.BlockStmt{List: []ast.Stmt{&ast.BranchStmt{Tok: token.CONTINUE}}}})
				if !isBlank(origKey) {
					t := token.DEFINE
					if tok == token.ASSIGN {
						t = token.ASSIGN
					}
					pre = append(pre, &ast.AssignStmt{Lhs: []ast.Expr{origKey}, Tok: t, Rhs: []ast.Expr{keyID}})
				}
				n.Key, n.Value, n.Tok = ast.NewIdent("_"), keyID, token.DEFINE
				n.X = &ast.CallExpr{Fun: &ast.SelectorExpr{X: ast.NewIdent("vrt"), Sel: ast.NewIdent("Keys")}, Args: []ast.Expr{mexpr, site(n)}}
				n.Body.List = append(pre, n.Body.List...)
			case *ast.SelectorExpr:
				s := info.Selections[n]
				if s == nil || s.Kind() != types.FieldVal {
					return true
				}
				v := s.Obj().(*types.Var)
				if !ownField(v) || gen {
					return true
				}
				if u, ok := c.Parent().(*ast.UnaryExpr); ok && u.Op == token.AND {
					stats["skipped_addr_taken"]++
					return true
				}
				if se, ok := c.Parent().(*ast.SelectorExpr); ok && c.Name() == "X" {
					// inner part of a longer chain: only hook if the outer selection dereferences through us (pointer field)
					os := info.Selections[se]
					if os != nil && os.Kind() == types.FieldVal && !os.Indirect() {
						return true // outer access covers this memory (same object)
					}
				}
				if tv, ok := info.Types[n]; !ok || !tv.Addressable() {
					stats["skipped_unaddressable"]++
					return true
				}
				if stackLocal(n) {
					stats["skipped_stack_local"]++
					return true
				}
				if isWritePos(c) {
					c.Replace(hook("W", n))
					stats["field_writes"]++
				} else {
					c.Replace(hook("R", n))
					stats["field_reads"]++
				}
			case *ast.Ident:
				o, ok := info.Uses[n].(*types.Var)
				if !ok || o.Parent() != pkg.Scope() || o.IsField() {
					return true
				}
				if _, ok := c.Parent().(*ast.SelectorExpr); ok && c.Name() == "Sel" {
					return true
				}
				if u, ok := c.Parent().(*ast.UnaryExpr); ok && u.Op == token.AND {
					return true
				}
				if isWritePos(c) {
					c.Replace(hook("W", n))
					stats["global_writes"]++
				} else if !gen {
					c.Replace(hook("R", n))
					stats["global_reads"]++
				}
			}
			return true
		})
		if usedRT {
			astutil.AddNamedImport(fset, f, "vrt", *rt)
		}
		var buf bytes.Buffer
		if err := printer.Fprint(&buf, fset, f); err != nil {
			panic(err)
		}
		dst := filepath.Join(*out, p.name+"__"+names[i])
		os.WriteFile(dst, buf.Bytes(), 0o644)
		overlay[fn] = dst
	}
	// zz_verif.go
	var sb strings.Builder
	fmt.Fprintf(&sb, "//go:build verif\n\npackage %s\n\n", p.name)
	if p.name == "grammar" {
		sb.WriteString("import (\n\t\"reflect\"\n\t\"unicode\"\n\t\"unsafe\"\n)\n\n")
	}
	if p.name == "bexpr" {
		sb.WriteString("import (\n\t\"reflect\"\n\t\"unsafe\"\n\n\t\"github.com/hashicorp/go-bexpr/grammar\"\n)\n\n")
	}
	sb.WriteString("// VerifGlobals returns pointers to every package-level variable.\nfunc VerifGlobals() map[string]any {\n\treturn map[string]any{\n")
	for _, g := range globals {
		fmt.Fprintf(&sb, "\t\t%q: &%s,\n", g, g)
	}
	sb.WriteString("\t}\n}\n")
	if p.name == "bexpr" {
		sb.WriteString("\n// VerifAST returns the syntax tree an Evaluator works on (C19: a tree must render the same before and after it was evaluated).\n// The field is found by its TYPE (the first field of type grammar.Expression), not by its name: renaming it is not a reason to fail.\nfunc VerifAST(e *Evaluator) interface{} {\n\tif e == nil {\n\t\treturn nil\n\t}\n\tv := reflect.ValueOf(e).Elem()\n\twant := reflect.TypeOf((*grammar.Expression)(nil)).Elem()\n\tfor i := 0; i < v.NumField(); i++ {\n\t\tif f := v.Field(i); f.Type() == want {\n\t\t\treturn reflect.NewAt(f.Type(), unsafe.Pointer(f.UnsafeAddr())).Elem().Interface()\n\t\t}\n\t}\n\treturn nil\n}\n")
	}
	if p.name == "grammar" {
		sb.WriteString(verifClassesSrc)
		sb.WriteString("\n// VerifParse is Parse plus the number of parser steps executed.\nfunc VerifParse(b []byte, opts ...Option) (any, error, uint64) {\n\tp := newParser(\"\", b, opts...)\n\tv, err := p.parse(g)\n\treturn v, err, uint64(p.ExprCnt)\n}\n")
	}
	dst := filepath.Join(*out, p.name+"__zz_verif.go")
	os.WriteFile(dst, []byte(sb.String()), 0o644)
	overlay[filepath.Join(p.dir, "zz_verif.go")] = dst
}
